pub mod numspec {
use vstd::prelude::*;
use num::bigint::BigInt;
use num::Rational32;
use vstd::std_specs::ops::AddSpec;

#[verifier::external_type_specification]
#[verifier::external_body]
pub struct ExBigInt(BigInt);
#[verifier::external_type_specification]
#[verifier::external_body]
#[verifier::reject_recursive_types(T)]
pub struct ExRatio<T>(num::rational::Ratio<T>);

pub uninterp spec fn big_val(b: BigInt) -> int;
pub uninterp spec fn ratio_num<T>(r: num::rational::Ratio<T>) -> int;
pub uninterp spec fn ratio_den<T>(r: num::rational::Ratio<T>) -> int;
pub uninterp spec fn int_of<T>(x: T) -> int;
pub open spec fn r32_num(r: Rational32) -> int { ratio_num::<i32>(r) }
pub open spec fn r32_den(r: Rational32) -> int { ratio_den::<i32>(r) }
#[verifier::external_body]
pub broadcast proof fn axiom_int_of_i32(x: i32) ensures #[trigger] int_of::<i32>(x) == x as int {}

pub open spec fn fits_i32(x: int) -> bool { i32::MIN <= x <= i32::MAX }
pub open spec fn fits_i64(x: int) -> bool { i64::MIN <= x <= i64::MAX }
/// a/b == c/d for b,d > 0
pub open spec fn q_eq(a: int, b: int, c: int, d: int) -> bool { a * d == c * b }
/// value n/d is representable as a reduced Rational32
pub uninterp spec fn ratio_representable<T>(n: int, d: int) -> bool;

#[verifier::external_body]
pub broadcast proof fn axiom_big_add_i64(a: BigInt, b: i64)
    ensures #![trigger <BigInt as AddSpec<i64>>::add_req(a, b)]
            #![trigger <BigInt as AddSpec<i64>>::add_spec(a, b)]
            <BigInt as AddSpec<i64>>::add_req(a, b),
            big_val(<BigInt as AddSpec<i64>>::add_spec(a, b)) == big_val(a) + b,
{}
#[verifier::external_body]
pub broadcast proof fn axiom_big_add_i32(a: BigInt, b: i32)
    ensures #![trigger <BigInt as AddSpec<i32>>::add_req(a, b)]
            #![trigger <BigInt as AddSpec<i32>>::add_spec(a, b)]
            <BigInt as AddSpec<i32>>::add_req(a, b),
            big_val(<BigInt as AddSpec<i32>>::add_spec(a, b)) == big_val(a) + b,
{}
#[verifier::external_body]
pub broadcast proof fn axiom_big_add_big(a: BigInt, b: BigInt)
    ensures #![trigger <BigInt as AddSpec<BigInt>>::add_req(a, b)]
            #![trigger <BigInt as AddSpec<BigInt>>::add_spec(a, b)]
            <BigInt as AddSpec<BigInt>>::add_req(a, b),
            big_val(<BigInt as AddSpec<BigInt>>::add_spec(a, b)) == big_val(a) + big_val(b),
{}
#[verifier::external_body]
#[verifier::allow(broadcast_without_trigger)]
pub broadcast proof fn axiom_big_obeys()
    ensures <BigInt as AddSpec<i64>>::obeys_add_spec(),
            <BigInt as AddSpec<i32>>::obeys_add_spec(),
            <BigInt as AddSpec<BigInt>>::obeys_add_spec(),
{}
#[verifier::external_body]
pub broadcast proof fn axiom_f64_add(a: f64, b: f64)
    ensures #[trigger] <f64 as AddSpec<f64>>::add_req(a, b) {}
#[verifier::external_body]
pub broadcast proof fn axiom_r32_wf(r: Rational32)
    ensures #![trigger r32_den(r)] #![trigger r32_num(r)]
      r32_den(r) > 0, fits_i32(r32_num(r)), fits_i32(r32_den(r)) {}
pub broadcast group group_num { axiom_big_obeys, axiom_big_add_i64, axiom_big_add_i32, axiom_big_add_big, axiom_f64_add, axiom_r32_wf, axiom_int_of_i32 }

#[verifier::external_body]
#[inline(always)]
pub fn f64_nan() -> (r: f64) { f64::NAN }

pub assume_specification [<i64 as num::CheckedAdd>::checked_add] (a: &i64, b: &i64) -> (r: Option<i64>)
    ensures (r matches Some(v) ==> v == *a + *b), (r is None <==> !fits_i64(*a + *b));
pub assume_specification<T: Clone + num::Integer> [num::rational::Ratio::<T>::from_integer] (a: T) -> (r: num::rational::Ratio<T>)
    ensures ratio_num(r) == int_of(a), ratio_den(r) == 1;
pub assume_specification<T: Clone + num::Integer + num::CheckedMul + num::CheckedAdd> [<num::rational::Ratio<T> as num::CheckedAdd>::checked_add] (a: &num::rational::Ratio<T>, b: &num::rational::Ratio<T>) -> (r: Option<num::rational::Ratio<T>>)
    ensures (r matches Some(v) ==> q_eq(ratio_num(v), ratio_den(v), ratio_num(*a) * ratio_den(*b) + ratio_num(*b) * ratio_den(*a), ratio_den(*a) * ratio_den(*b))),
            (r is None ==> !ratio_representable::<T>(ratio_num(*a) * ratio_den(*b) + ratio_num(*b) * ratio_den(*a), ratio_den(*a) * ratio_den(*b)));
pub assume_specification<T: Clone + num::Integer> [num::rational::Ratio::<T>::is_integer] (a: &num::rational::Ratio<T>) -> (r: bool)
    ensures r <==> ratio_den(*a) == 1;
pub assume_specification<T: Clone + num::Integer> [num::rational::Ratio::<T>::to_integer] (a: &num::rational::Ratio<T>) -> (r: T)
    ensures ratio_den(*a) == 1 ==> int_of(r) == ratio_num(*a);
pub assume_specification [<BigInt as From<i64>>::from] (a: i64) -> (r: BigInt)
    ensures big_val(r) == a;
}
use numspec::*;
broadcast use numspec::group_num;

pub open spec fn is_exact(n: Number) -> bool { !(n is Float) }
pub open spec fn vnum(n: Number) -> int {
    match n { Number::Fixnum(i) => i as int, Number::BigInt(b) => big_val(*b), Number::Rational(r) => r32_num(r), Number::Float(_) => 0 }
}
pub open spec fn vden(n: Number) -> int {
    match n { Number::Rational(r) => r32_den(r), _ => 1 }
}

impl vstd::std_specs::convert::FromSpecImpl<i64> for Number {
    open spec fn obeys_from_spec() -> bool { true }
    open spec fn from_spec(v: i64) -> Number { Number::Fixnum(v) }
}
impl vstd::std_specs::convert::FromSpecImpl<f64> for Number {
    open spec fn obeys_from_spec() -> bool { true }
    open spec fn from_spec(v: f64) -> Number { Number::Float(v) }
}
impl vstd::std_specs::convert::FromSpecImpl<Rational32> for Number {
    open spec fn obeys_from_spec() -> bool { true }
    open spec fn from_spec(v: Rational32) -> Number { Number::Rational(v) }
}
impl vstd::std_specs::convert::FromSpecImpl<BigInt> for Number {
    open spec fn obeys_from_spec() -> bool { true }
    open spec fn from_spec(v: BigInt) -> Number { Number::BigInt(Rc::new(v)) }
}
impl<'a> vstd::std_specs::ops::AddSpecImpl<&'a Number> for &'a Number {
    open spec fn obeys_add_spec() -> bool { false }
    open spec fn add_req(self, rhs: &'a Number) -> bool { true }
    open spec fn add_spec(self, rhs: &'a Number) -> Number { arbitrary() }
}

pub mod numspec2 {
use vstd::prelude::*;
use num::bigint::BigInt;
use num::rational::Ratio;
#[verifier::external_body] #[inline(always)] pub fn f64_max() -> (r: f64) { f64::MAX }
pub assume_specification [<i64 as num::CheckedMul>::checked_mul] (a: &i64, b: &i64) -> (r: Option<i64>);
pub assume_specification [<i64 as num::CheckedSub>::checked_sub] (a: &i64, b: &i64) -> (r: Option<i64>);
pub assume_specification<T: Clone + num::Integer + num::CheckedMul + num::CheckedSub> [<Ratio<T> as num::CheckedSub>::checked_sub] (a: &Ratio<T>, b: &Ratio<T>) -> (r: Option<Ratio<T>>);
pub assume_specification<T: Clone + num::Integer + num::CheckedMul> [<Ratio<T> as num::CheckedMul>::checked_mul] (a: &Ratio<T>, b: &Ratio<T>) -> (r: Option<Ratio<T>>);
pub assume_specification<T: Clone + num::Integer + num::CheckedMul> [<Ratio<T> as num::CheckedDiv>::checked_div] (a: &Ratio<T>, b: &Ratio<T>) -> (r: Option<Ratio<T>>);
pub assume_specification<T: Clone + num::Integer> [Ratio::<T>::new] (n: T, d: T) -> (r: Ratio<T>);
pub assume_specification<T> [Ratio::<T>::numer] (a: &Ratio<T>) -> (r: &T);
pub assume_specification<T> [Ratio::<T>::denom] (a: &Ratio<T>) -> (r: &T);
}
use numspec2::*;
pub uninterp spec fn prim_int<T: ?Sized>(x: &T) -> int;
#[verifier::external_trait_specification]
pub trait ExToPrimitive {
    type ExternalTraitSpecificationFor: num::ToPrimitive;
    fn to_i64(&self) -> (r: Option<i64>)
        ensures r is Some <==> i64::MIN <= prim_int(self) <= i64::MAX, r matches Some(v) ==> v == prim_int(self);
    fn to_u64(&self) -> (r: Option<u64>);
    fn to_i32(&self) -> (r: Option<i32>)
        ensures r is Some <==> i32::MIN <= prim_int(self) <= i32::MAX, r matches Some(v) ==> v == prim_int(self);
    fn to_f64(&self) -> (r: Option<f64>);
}

