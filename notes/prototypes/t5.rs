use vstd::prelude::*;
use num::bigint::BigInt;
use std::ops::Add;
verus! {
pub mod ax {
use vstd::prelude::*;
use num::bigint::BigInt;
use vstd::std_specs::ops::AddSpec;
#[verifier::external_type_specification]
#[verifier::external_body]
pub struct ExBigInt(BigInt);
pub uninterp spec fn big_val(b: BigInt) -> int;

#[verifier::external_body]
pub broadcast proof fn axiom_big_add_i64(a: BigInt, b: i64)
    ensures #![trigger <BigInt as AddSpec<i64>>::add_req(a, b)]
            #![trigger <BigInt as AddSpec<i64>>::add_spec(a, b)]
            <BigInt as AddSpec<i64>>::add_req(a, b),
            big_val(<BigInt as AddSpec<i64>>::add_spec(a, b)) == big_val(a) + b,
{}
#[verifier::external_body]
pub broadcast proof fn axiom_i64_add_big(a: i64, b: BigInt)
    ensures #![trigger <i64 as AddSpec<BigInt>>::add_req(a, b)]
            #![trigger <i64 as AddSpec<BigInt>>::add_spec(a, b)]
            <i64 as AddSpec<BigInt>>::add_req(a, b),
            big_val(<i64 as AddSpec<BigInt>>::add_spec(a, b)) == big_val(b) + a,
{}
#[verifier::external_body]
pub broadcast proof fn axiom_big_add_big(a: BigInt, b: BigInt)
    ensures #![trigger <BigInt as AddSpec<BigInt>>::add_req(a, b)]
            #![trigger <BigInt as AddSpec<BigInt>>::add_spec(a, b)]
            <BigInt as AddSpec<BigInt>>::add_req(a, b),
            big_val(<BigInt as AddSpec<BigInt>>::add_spec(a, b)) == big_val(a) + big_val(b),
{}
#[verifier::external_body]
#[verifier::allow(broadcast_without_trigger)]
pub broadcast proof fn axiom_big_obeys()
    ensures <BigInt as AddSpec<i64>>::obeys_add_spec(),
            <BigInt as AddSpec<BigInt>>::obeys_add_spec(),
            <i64 as AddSpec<BigInt>>::obeys_add_spec(),
{}
pub broadcast group group_num { axiom_big_obeys, axiom_big_add_i64, axiom_big_add_big, axiom_i64_add_big }
}
use ax::*;
broadcast use ax::group_num;

fn f(a: BigInt, b: &i64) -> (r: BigInt) ensures big_val(r) == big_val(a) + *b {
    a + b
}
fn g(a: &BigInt, b: &i64) -> (r: BigInt) ensures big_val(r) == big_val(*a) + *b {
    a + b
}
fn h(a: &BigInt, b: &BigInt) -> (r: BigInt) ensures big_val(r) == big_val(*a) + big_val(*b) {
    a + b
}
fn k(a: &i64, b: &BigInt) -> (r: BigInt) ensures big_val(r) == big_val(*b) + *a {
    a + b
}
}
fn main(){}
