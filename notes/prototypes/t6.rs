use vstd::prelude::*;
use num::bigint::BigInt;
use num::ToPrimitive;
verus! {
#[verifier::external_type_specification]
#[verifier::external_body]
pub struct ExBigInt(BigInt);
pub uninterp spec fn big_val(b: BigInt) -> int;
/// integer value carried by a ToPrimitive source (truncated toward zero for non-integers)
pub uninterp spec fn prim_int<T: ?Sized>(x: &T) -> int;

#[verifier::external_trait_specification]
pub trait ExToPrimitive {
    type ExternalTraitSpecificationFor: num::ToPrimitive;
    fn to_i64(&self) -> (r: Option<i64>)
        ensures r is Some <==> i64::MIN <= prim_int(self) <= i64::MAX, r matches Some(v) ==> v == prim_int(self);
    fn to_u64(&self) -> (r: Option<u64>);
    fn to_i32(&self) -> (r: Option<i32>)
        ensures r is Some <==> i32::MIN <= prim_int(self) <= i32::MAX, r matches Some(v) ==> v == prim_int(self);
    fn to_f64(&self) -> (r: Option<f64>);
}
#[verifier::external_body]
pub broadcast proof fn axiom_prim_int_big(b: &BigInt) ensures #[trigger] prim_int::<BigInt>(b) == big_val(*b) {}
#[verifier::external_body]
pub broadcast proof fn axiom_prim_int_i64(b: &i64) ensures #[trigger] prim_int::<i64>(b) == *b {}

fn f(b: &BigInt) -> (r: Option<i32>) ensures r is Some <==> i32::MIN <= big_val(*b) <= i32::MAX {
    broadcast use axiom_prim_int_big;
    b.to_i32()
}
fn g(b: &i64) -> (r: bool) ensures r <==> i32::MIN <= *b <= i32::MAX {
    broadcast use axiom_prim_int_i64;
    b.to_i32().is_some()
}
}
fn main(){}
