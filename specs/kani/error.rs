// appended to marwood/src/error.rs as `#[cfg(kani)] mod verif_kani`
use super::*;
use std::fmt::Write;

struct Sink;
impl Write for Sink {
    fn write_str(&mut self, _s: &str) -> std::fmt::Result {
        Ok(())
    }
}

/// rendering the two index errors never panics, for every pair of usize fields
#[kani::proof]
#[kani::unwind(24)]
fn error_index_display_total() {
    let a: usize = kani::any();
    let b: usize = kani::any();
    let which: bool = kani::any();
    let e = if which { Error::InvalidVectorIndex(a, b) } else { Error::InvalidStringIndex(a, b) };
    let mut s = Sink;
    let _ = write!(s, "{}", e);
    std::mem::forget(e);
}
