// appended to marwood/src/vm/continuation.rs as `#[cfg(kani)] mod verif_kani`
use super::*;
use crate::vm::heap::Heap;

/// HashMap::new() seeds its hasher from the OS (a syscall Kani cannot model): fixed keys instead
fn fixed_random_state() -> std::collections::hash_map::RandomState {
    unsafe { std::mem::zeroed() }
}

/// mark_continuation keeps alive what the saved stack, the saved code pointer and the saved environment
/// pointer refer to: heap of 8 allocated cells, one saved stack slot, symbolic in-range pointers; after
/// mark_continuation + sweep exactly those cells still hold their value.
#[kani::proof]
#[kani::unwind(258)]
#[kani::stub(std::collections::hash_map::RandomState::new, fixed_random_state)]
fn heap_mark_continuation_roots() {
    let mut heap = Heap::new(8);
    for _ in 0..8 {
        heap.put(VCell::Bool(true));
    }
    let sp_ptr: usize = kani::any();
    let ip0: usize = kani::any();
    let ep: usize = kani::any();
    kani::assume(sp_ptr < 8 && ip0 < 8 && ep < 8);
    let mut s = Stack::new();
    s.push(VCell::Ptr(sp_ptr));
    let cont = Continuation { stack: s.to_continuation(), ep, ip: (ip0, 3), bp: 0 };
    heap.mark_continuation(&cont);
    heap.sweep();
    let q: usize = kani::any();
    kani::assume(q < 8);
    let live = q == sp_ptr || q == ip0 || q == ep;
    assert!((*heap.get_at_index(q) == VCell::Bool(true)) == live);
}
