// appended to marwood/src/vm/continuation.rs as `#[cfg(kani)] pub(crate) mod verif_kani`
use super::*;
use crate::vm::heap::Heap;

/// HashMap::new() seeds its hasher from the OS (a syscall Kani cannot model): fixed keys instead
fn fixed_random_state() -> std::collections::hash_map::RandomState {
    unsafe { std::mem::zeroed() }
}

/// mark_continuation keeps alive what the saved stack (all of its slots 0..=sp), the saved code pointer and the
/// saved environment pointer refer to. Heap of 8 allocated leaf cells; saved stack of 2 slots holding symbolic
/// in-range pointers; symbolic ep / ip. After mark_continuation + sweep exactly the referenced cells still hold
/// their value. (Values are leaked so that no drop glue runs.)
#[kani::proof]
#[kani::unwind(10)]
#[kani::stub(std::collections::hash_map::RandomState::new, fixed_random_state)]
fn heap_mark_continuation_roots() {
    let mut heap = Heap::new(8);
    let mut i = 0;
    while i < 8 {
        let p = heap.put(VCell::Bool(true));
        std::mem::forget(p);
        i += 1;
    }
    let s0: usize = kani::any();
    let s1: usize = kani::any();
    let ip0: usize = kani::any();
    let ep: usize = kani::any();
    kani::assume(s0 < 8 && s1 < 8 && ip0 < 8 && ep < 8);
    let cont = Continuation {
        stack: crate::vm::stack::verif_kani::small_stack(vec![VCell::Ptr(s0), VCell::Ptr(s1)], 1),
        ep,
        ip: (ip0, 3),
        bp: 0,
    };
    heap.mark_continuation(&cont);
    heap.sweep();
    let q: usize = kani::any();
    kani::assume(q < 8);
    let live = q == s0 || q == s1 || q == ip0 || q == ep;
    let holds = matches!(heap.get_at_index(q), VCell::Bool(true));
    assert!(holds == live);
    std::mem::forget(cont);
    std::mem::forget(heap);
}
