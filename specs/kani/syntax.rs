// appended to marwood/src/syntax.rs as `#[cfg(kani)] mod verif_kani`
use super::*;

fn any_type() -> TokenType {
    let k: u8 = kani::any();
    match k % 5 {
        0 => TokenType::LeftParen,
        1 => TokenType::RightParen,
        2 => TokenType::HashParen,
        3 => TokenType::Symbol,
        _ => TokenType::String,
    }
}

fn is_open(t: &TokenType) -> bool {
    matches!(t, TokenType::LeftParen | TokenType::HashParen)
}

/// executable statement of "properly nested partner in the token stream" (vector openers open)
fn oracle_partner(tokens: &[Token], j: usize) -> Option<usize> {
    let n = tokens.len();
    if is_open(&tokens[j].token_type) {
        let mut depth = 0usize;
        let mut k = j + 1;
        while k < n {
            if is_open(&tokens[k].token_type) {
                depth += 1;
            } else if tokens[k].token_type == TokenType::RightParen {
                if depth == 0 {
                    return Some(k);
                }
                depth -= 1;
            }
            k += 1;
        }
        None
    } else if tokens[j].token_type == TokenType::RightParen {
        let mut depth = 0usize;
        let mut k = j;
        while k > 0 {
            k -= 1;
            if tokens[k].token_type == TokenType::RightParen {
                depth += 1;
            } else if is_open(&tokens[k].token_type) {
                if depth == 0 {
                    return Some(k);
                }
                depth -= 1;
            }
        }
        None
    } else {
        None
    }
}

fn check<const N: usize>() {
    // N tokens with symbolic types, widths 1..=2 and gaps 0..=1, in increasing span order
    let mut tokens: [Token; N] = std::array::from_fn(|_| Token::new((0, 1), TokenType::Symbol));
    let mut pos = 0usize;
    let mut i = 0;
    while i < N {
        let gap: usize = kani::any();
        let w: usize = kani::any();
        kani::assume(gap <= 1 && w >= 1 && w <= 2);
        pos += gap;
        tokens[i] = Token::new((pos, pos + w), any_type());
        pos += w;
        i += 1;
    }
    // partner of every token
    let j: usize = kani::any();
    kani::assume(j < N);
    let got = find_matching_bracket(&tokens, (j, &tokens[j]));
    match oracle_partner(&tokens, j) {
        Some(k) => {
            assert!(got.is_some());
            assert!(got.unwrap().span == tokens[k].span);
        }
        None => assert!(got.is_none()),
    }
    // token at cursor: the token covering the cursor, else the one covering the position before it
    let cursor: usize = kani::any();
    kani::assume(cursor <= pos + 2);
    let at = find_token_at_cursor(&tokens, cursor);
    let mut want: Option<usize> = None;
    let mut k = 0;
    while k < N {
        if want.is_none() && cursor >= tokens[k].span.0 && cursor < tokens[k].span.1 {
            want = Some(k);
        }
        k += 1;
    }
    if want.is_none() && cursor > 0 {
        let mut k = 0;
        while k < N {
            if want.is_none() && cursor - 1 >= tokens[k].span.0 && cursor - 1 < tokens[k].span.1 {
                want = Some(k);
            }
            k += 1;
        }
    }
    match want {
        Some(k) => assert!(at.is_some() && at.unwrap().0 == k),
        None => assert!(at.is_none()),
    }
}

#[kani::proof]
#[kani::unwind(8)]
fn syntax_partner_n1() { check::<1>(); }
#[kani::proof]
#[kani::unwind(8)]
fn syntax_partner_n2() { check::<2>(); }
#[kani::proof]
#[kani::unwind(8)]
fn syntax_partner_n3() { check::<3>(); }
#[kani::proof]
#[kani::unwind(8)]
fn syntax_partner_n4() { check::<4>(); }
#[kani::proof]
#[kani::unwind(8)]
fn syntax_partner_n5() { check::<5>(); }
#[kani::proof]
#[kani::unwind(9)]
fn syntax_partner_n6() { check::<6>(); }
