// appended to marwood/src/number.rs as `#[cfg(kani)] mod verif_kani`
use super::*;

/// is_zero on every fixnum
#[kani::proof]
fn num_is_zero_fixnum() {
    let n: i64 = kani::any();
    assert!(Number::Fixnum(n).is_zero() == (n == 0));
}

/// is_zero on every Rational32 with positive denominator (as stored)
#[kani::proof]
fn num_is_zero_rational() {
    let n: i32 = kani::any();
    let d: i32 = kani::any();
    kani::assume(d > 0);
    assert!(Number::Rational(Rational32::new_raw(n, d)).is_zero() == (n == 0));
}

/// is_zero on a bignum carrying any i64 value (bignums are not demoted, so small values occur)
#[kani::proof]
#[kani::unwind(4)]
fn num_is_zero_bigint_i64() {
    let n: i64 = kani::any();
    assert!(Number::BigInt(Rc::new(BigInt::from(n))).is_zero() == (n == 0));
}

fn rev(o: Option<std::cmp::Ordering>) -> Option<std::cmp::Ordering> {
    match o { Some(x) => Some(x.reverse()), None => None }
}

/// mixed exact / inexact comparison, fixnum against float (every i64, every non-NaN f64): the two argument orders agree
/// (x < y iff y > x), `=` is symmetric, and `=` holds exactly when the order says Equal
#[kani::proof]
fn num_cmp_fixnum_float_consistent() {
    let a: i64 = kani::any();
    let f: f64 = kani::any();
    kani::assume(!f.is_nan());
    let x = Number::Fixnum(a);
    let y = Number::Float(f);
    let c1 = x.partial_cmp(&y);
    let c2 = y.partial_cmp(&x);
    assert!(c1.is_some());
    assert!(c1 == rev(c2));
    assert!((x == y) == (y == x));
    assert!((x == y) == (c1 == Some(std::cmp::Ordering::Equal)));
}

// (the same harness for float against rational does not finish: Ratio::to_f64 goes through 128-bit division loops; 900 s timeout)
