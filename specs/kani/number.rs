// appended to marwood/src/number.rs as `#[cfg(kani)] mod verif_kani`
use super::*;

/// is_zero on every fixnum
#[kani::proof]
fn num_is_zero_fixnum() {
    let n: i64 = kani::any();
    assert!(Number::Fixnum(n).is_zero() == (n == 0));
}

/// is_zero on every Rational32 with positive denominator (as stored)
#[kani::proof]
fn num_is_zero_rational() {
    let n: i32 = kani::any();
    let d: i32 = kani::any();
    kani::assume(d > 0);
    assert!(Number::Rational(Rational32::new_raw(n, d)).is_zero() == (n == 0));
}

/// is_zero on a bignum carrying any i64 value (bignums are not demoted, so small values occur)
#[kani::proof]
#[kani::unwind(4)]
fn num_is_zero_bigint_i64() {
    let n: i64 = kani::any();
    assert!(Number::BigInt(Rc::new(BigInt::from(n))).is_zero() == (n == 0));
}
