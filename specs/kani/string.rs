// appended to marwood/src/vm/builtin/string.rs as `#[cfg(kani)] mod verif_kani`
use super::*;

fn pick(k: u8) -> char {
    match k % 4 {
        0 => 'a',
        1 => '\u{f1}',
        2 => '\u{20ac}',
        _ => '\u{1f436}',
    }
}

/// char_offset / char_offset_inclusive against the vector-of-scalars model: strings of 0..=2 characters
/// of every byte width (1..4), every index 0..=3
#[kani::proof]
#[kani::unwind(8)]
fn string_char_offsets_model() {
    let n: usize = kani::any();
    kani::assume(n <= 2);
    let c0 = pick(kani::any());
    let c1 = pick(kani::any());
    let mut s = String::new();
    if n >= 1 { s.push(c0); }
    if n >= 2 { s.push(c1); }
    let idx: usize = kani::any();
    kani::assume(idx <= 3);
    let w0 = c0.len_utf8();
    let w1 = c1.len_utf8();
    let off = char_offset(&s, idx);
    let offi = char_offset_inclusive(&s, idx);
    if idx < n {
        let want = if idx == 0 { 0 } else { w0 };
        let wanti = if idx == 0 { w0 } else { w0 + w1 };
        assert!(off.is_ok() && *off.as_ref().unwrap() == want);
        assert!(offi.is_ok() && *offi.as_ref().unwrap() == wanti);
    } else {
        assert!(off.is_err());
        assert!(offi.is_err());
    }
    std::mem::forget(off);
    std::mem::forget(offi);
}
