// appended to marwood/src/vm/gc.rs as `#[cfg(kani)] mod verif_kani`
use super::*;

fn bits_ok(b: u8) -> bool {
    (b & 3) != 3 && ((b >> 2) & 3) != 3 && ((b >> 4) & 3) != 3 && ((b >> 6) & 3) != 3
}

/// State::from(u8) over all 256 bytes: total on 0..=2 and inverse of bits()
#[kani::proof]
fn gc_state_from_u8() {
    let b: u8 = kani::any();
    kani::assume(b <= 2);
    let s = State::from(b);
    assert!(s.bits() == b);
}

/// Map::get: for every byte content (well-formed: no 0b11 cell) and every index, the answer is the
/// 2-bit field of the addressed byte / None past the capacity. Map length fixed at 3 bytes (12 cells).
#[kani::proof]
fn gc_map_get() {
    let b0: u8 = kani::any();
    let b1: u8 = kani::any();
    let b2: u8 = kani::any();
    kani::assume(bits_ok(b0) && bits_ok(b1) && bits_ok(b2));
    let m = Map { size: 12, map: vec![b0, b1, b2] };
    let index: usize = kani::any();
    kani::assume(index < 64);
    let r = m.get(index);
    if index < 12 {
        let byte = if index / 4 == 0 { b0 } else if index / 4 == 1 { b1 } else { b2 };
        let want = (byte >> ((index % 4) * 2)) & 3;
        assert!(r.is_some());
        assert!(r.unwrap().bits() == want);
    } else {
        assert!(r.is_none());
    }
}

/// Map::new / resize: capacity, all-new-cells-free, old cells kept (sizes up to 16 cells)
#[kani::proof]
#[kani::unwind(6)]
fn gc_map_new_resize() {
    let n4: usize = kani::any();
    kani::assume(n4 <= 2);
    let mut m = Map::new(n4 * 4);
    assert!(m.capacity() == n4 * 4);
    let i: usize = kani::any();
    kani::assume(i < 16);
    if i < n4 * 4 {
        assert!(m.get(i) == Some(State::Free));
        m.set(i, State::Used);
    } else {
        assert!(m.get(i).is_none());
    }
    let g4: usize = kani::any();
    kani::assume(g4 >= n4 && g4 <= 4);
    m.resize(g4 * 4);
    assert!(m.capacity() == g4 * 4);
    let j: usize = kani::any();
    kani::assume(j < 16);
    if j < g4 * 4 {
        let want = if j == i && i < n4 * 4 { State::Used } else { State::Free };
        assert!(m.get(j) == Some(want));
    } else {
        assert!(m.get(j).is_none());
    }
}
