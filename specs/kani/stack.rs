// appended to marwood/src/vm/stack.rs as `#[cfg(kani)] pub(crate) mod verif_kani` (helper only, no harness)
use super::*;

/// a stack with exactly these cells and this sp (Stack::new() allocates 256 cells, too many for CBMC)
pub(crate) fn small_stack(cells: Vec<VCell>, sp: usize) -> Stack {
    Stack { stack: cells, sp }
}
