// appended to marwood/src/vm/stack.rs as `#[cfg(kani)] mod verif_kani`
use super::*;

/// iter_to_sp yields exactly the slots 0..=sp (the collector's stack roots): for 0..=3 pushed cells
#[kani::proof]
#[kani::unwind(258)]
fn stack_iter_to_sp_is_live_part() {
    let mut s = Stack::new();
    let n: usize = kani::any();
    kani::assume(n <= 3);
    let a: usize = kani::any();
    let b: usize = kani::any();
    let c: usize = kani::any();
    if n >= 1 { s.push(VCell::Ptr(a)); }
    if n >= 2 { s.push(VCell::Ptr(b)); }
    if n >= 3 { s.push(VCell::Ptr(c)); }
    let mut count = 0usize;
    let mut last = VCell::Nil;
    for it in s.iter_to_sp() {
        count += 1;
        last = it.clone();
    }
    assert!(count == n + 1);
    if n == 1 { assert!(last == VCell::Ptr(a)); }
    if n == 2 { assert!(last == VCell::Ptr(b)); }
    if n == 3 { assert!(last == VCell::Ptr(c)); }
}
