// appended to marwood/src/vm/vcell.rs as `#[cfg(kani)] mod verif_kani`
use super::*;

/// as_ptr / as_argc / as_car / as_cdr / as_bp on every payload value of the payload-free and usize-carrying
/// variants: Ok(payload) exactly on the matching variant, Err otherwise (loop-free, full usize domain)
#[kani::proof]
#[kani::unwind(2)]
fn vcell_accessors() {
    let k: u8 = kani::any();
    let a: usize = kani::any();
    let b: usize = kani::any();
    let v = match k % 8 {
        0 => VCell::Ptr(a),
        1 => VCell::ArgumentCount(a),
        2 => VCell::Pair(a, b),
        3 => VCell::BasePointer(a),
        4 => VCell::Nil,
        5 => VCell::Bool(a % 2 == 0),
        6 => VCell::Closure(a, b),
        _ => VCell::Undefined,
    };
    match &v {
        VCell::Ptr(p) => assert!(v.as_ptr() == Ok(*p)),
        _ => assert!(v.as_ptr().is_err()),
    }
    match &v {
        VCell::ArgumentCount(p) => assert!(v.as_argc() == Ok(*p)),
        _ => assert!(v.as_argc().is_err()),
    }
    match &v {
        VCell::Pair(x, y) => {
            assert!(v.as_car() == Ok(VCell::Ptr(*x)));
            assert!(v.as_cdr() == Ok(VCell::Ptr(*y)));
            assert!(v.is_pair());
        }
        _ => {
            assert!(v.as_car().is_err());
            assert!(v.as_cdr().is_err());
            assert!(!v.is_pair());
        }
    }
    match &v {
        VCell::BasePointer(p) => assert!(v.as_bp() == Ok(*p)),
        _ => assert!(v.as_bp().is_err()),
    }
}
