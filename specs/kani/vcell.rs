// appended to marwood/src/vm/vcell.rs as `#[cfg(kani)] mod verif_kani`
use super::*;

fn ok_is(r: Result<usize, Error>, want: usize) -> bool {
    let b = matches!(&r, Ok(x) if *x == want);
    std::mem::forget(r);
    b
}
fn is_err<T>(r: Result<T, Error>) -> bool {
    let b = r.is_err();
    std::mem::forget(r);
    b
}
fn ok_pair(r: Result<(usize, usize), Error>, a: usize, b: usize) -> bool {
    let ok = matches!(&r, Ok((x, y)) if *x == a && *y == b);
    std::mem::forget(r);
    ok
}
fn ok_ptr(r: Result<VCell, Error>, want: usize) -> bool {
    let b = matches!(&r, Ok(VCell::Ptr(x)) if *x == want);
    std::mem::forget(r);
    b
}

/// as_ptr / as_argc / as_car / as_cdr / as_bp / as_ep / as_ip / is_pair: Ok(payload) exactly on the matching variant, Err otherwise
/// (loop-free, full usize domain, payload-free and usize-carrying variants; values are leaked so that no drop glue runs)
#[kani::proof]
#[kani::unwind(2)]
fn vcell_accessors() {
    let k: u8 = kani::any();
    let a: usize = kani::any();
    let b: usize = kani::any();
    let v = match k % 10 {
        8 => VCell::EnvironmentPointer(a),
        9 => VCell::InstructionPointer(a, b),
        0 => VCell::Ptr(a),
        1 => VCell::ArgumentCount(a),
        2 => VCell::Pair(a, b),
        3 => VCell::BasePointer(a),
        4 => VCell::Nil,
        5 => VCell::Bool(a % 2 == 0),
        6 => VCell::Closure(a, b),
        _ => VCell::Undefined,
    };
    match k % 10 {
        0 => assert!(ok_is(v.as_ptr(), a)),
        _ => assert!(is_err(v.as_ptr())),
    }
    match k % 10 {
        1 => assert!(ok_is(v.as_argc(), a)),
        _ => assert!(is_err(v.as_argc())),
    }
    match k % 10 {
        2 => {
            assert!(ok_ptr(v.as_car(), a));
            assert!(ok_ptr(v.as_cdr(), b));
            assert!(v.is_pair());
        }
        _ => {
            assert!(is_err(v.as_car()));
            assert!(is_err(v.as_cdr()));
            assert!(!v.is_pair());
        }
    }
    match k % 10 {
        3 => assert!(ok_is(v.as_bp(), a)),
        _ => assert!(is_err(v.as_bp())),
    }
    match k % 10 {
        8 => assert!(ok_is(v.as_ep(), a)),
        _ => assert!(is_err(v.as_ep())),
    }
    match k % 10 {
        9 => assert!(ok_pair(v.as_ip(), a, b)),
        _ => assert!(is_err(v.as_ip())),
    }
    assert!(v.is_nil() == (k % 10 == 4));
    std::mem::forget(v);
}
