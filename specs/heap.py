"""Unit `heap`: marwood/src/vm/heap.rs — allocation, interning, free, sweep, mark (C03, C12, C18)."""
import os, sys
sys.path.insert(0, os.path.dirname(os.path.abspath(__file__)))
import importlib
import heap_mark
importlib.reload(heap_mark)
import builtin as _builtin_spec  # the model of Heap::put that the opaque-heap groups assume (shared text)
importlib.reload(_builtin_spec)


PRELUDE = r'''
use vstd::std_specs::hash::*;
/// String keys hash and compare lawfully (std); needed for vstd's HashMap model
#[verifier::external_body]
pub proof fn axiom_string_key() ensures obeys_key_model::<String>(), builds_valid_hashers::<std::collections::hash_map::RandomState>() {}

impl Heap {
    pub closed spec fn cells(&self) -> Seq<VCell> { self.heap@ }
    pub closed spec fn gcmap(&self) -> gc::Map { self.heap_map }
    pub closed spec fn free_cells(&self) -> Seq<usize> { self.free_list@ }
    pub closed spec fn table(&self) -> Map<String, usize> { self.symbol_table@ }
    pub closed spec fn chunk(&self) -> usize { self.chunk_size }
    pub open spec fn len(&self) -> int { self.cells().len() as int }
    /// 0 free, 1 allocated, 2 used
    pub open spec fn state(&self, p: int) -> u8 { self.gcmap().state_bits(p) }

    /// Representation invariant.
    pub open spec fn wf(&self) -> bool {
        &&& self.gcmap().wf()
        &&& self.gcmap().cap() == self.len()
        &&& self.chunk() > 0
        // free list: in range, distinct, and exactly the cells in state Free
        &&& forall|i: int| 0 <= i < self.free_cells().len() ==> (#[trigger] self.free_cells()[i]) < self.len() && self.state(self.free_cells()[i] as int) == 0
        &&& self.free_cells().no_duplicates()
        &&& forall|p: int| 0 <= p < self.len() && #[trigger] self.state(p) == 0 ==> self.free_cells().contains(p as usize)
        // a free cell holds no stale value (so a cell handed out by alloc never carries an old symbol)
        &&& forall|p: int| 0 <= p < self.len() && self.state(p) == 0 ==> (#[trigger] self.cells()[p]) == VCell::Undefined
        // intern table: every entry points at a live cell holding that very symbol
        &&& forall|name: String| #[trigger] self.table().contains_key(name) ==> self.interned_at(name, self.table()[name] as int)
        // ... and every live symbol cell is the table's entry for its name (so a name has one live cell)
        &&& forall|p: int| 0 <= p < self.len() && self.state(p) != 0 ==> self.symbol_cell_interned(p)
    }
    pub open spec fn symbol_cell_interned(&self, p: int) -> bool {
        (#[trigger] self.cells()[p]) matches VCell::Symbol(s) ==> self.table().contains_key(*s) && self.table()[*s] == p
    }
    pub open spec fn interned_at(&self, name: String, p: int) -> bool {
        0 <= p < self.len() && self.state(p) != 0 && (self.cells()[p] matches VCell::Symbol(s) && *s == name)
    }

    /// effect on cell p of a sweep that has processed the cells below `upto`
    pub open spec fn cell_swept(&self, old: Heap, p: int, upto: int) -> bool {
        if p >= upto || old.state(p) == 0 { self.state(p) == old.state(p) && self.cells()[p] == old.cells()[p] }
        else if old.state(p) == 1 { self.state(p) == 0 && self.cells()[p] == VCell::Undefined }
        else { self.state(p) == 1 && self.cells()[p] == old.cells()[p] }
    }
    pub open spec fn name_swept(&self, old: Heap, name: String, upto: int) -> bool {
        &&& self.table().contains_key(name) <==> (old.table().contains_key(name) && !(old.table()[name] < upto && old.state(old.table()[name] as int) == 1))
        &&& self.table().contains_key(name) ==> self.table()[name] == old.table()[name]
    }
    pub open spec fn swept_upto(&self, old: Heap, upto: int) -> bool {
        &&& self.len() == old.len()
        &&& forall|p: int| 0 <= p < old.len() ==> #[trigger] self.cell_swept(old, p, upto)
        &&& forall|name: String| #[trigger] self.name_swept(old, name, upto)
    }
}

/// the value `x.into()` produces for the `Into<VCell>` argument of put / maybe_put
pub open spec fn into_vcell<T: Into<VCell>>(x: T) -> VCell { <T as vstd::std_specs::convert::IntoSpec<VCell>>::into_spec(x) }
pub open spec fn into_obeys<T: Into<VCell>>() -> bool { <T as vstd::std_specs::convert::IntoSpec<VCell>>::obeys_into_spec() }
/// the two views the opaque-heap groups (builtins, cont, compile, ...) reason with, defined on the real representation
pub open spec fn m_deref(h: Heap, c: VCell) -> VCell { match c { VCell::Ptr(p) => if p < h.len() { h.cells()[p as int] } else { VCell::Undefined }, _ => c } }
/// the cell a Cow argument carries
pub open spec fn cow_val(c: std::borrow::Cow<VCell>) -> VCell { match c { std::borrow::Cow::Borrowed(b) => *b, std::borrow::Cow::Owned(o) => o } }
/// what the opaque-heap groups take as an axiom (axiom_deref_immediate): a cell that is not a pointer designates itself
pub proof fn lemma_m_deref_immediate(h: Heap, c: VCell) ensures !(c is Ptr) ==> m_deref(h, c) == c {}
pub open spec fn m_live(h: Heap, c: VCell) -> bool { c matches VCell::Ptr(p) && p < h.len() && h.state(p as int) != 0 }
/// the model of Heap::put those groups ASSUME (specs/builtin.py: put_model), here over the concrete views: Heap::put is verified to satisfy it
pub open spec fn put_model_c(h0: Heap, h1: Heap, x: VCell, r: VCell) -> bool {
PUT_MODEL_C_BODY
}
pub open spec fn m_len(h: Heap) -> nat { h.len() as nat }
/// the model of Heap::get_at_index_mut those groups assume (specs/builtin.py: GIM_MODEL_TEMPLATE), over the concrete views
pub open spec fn gim_model_c(h0: Heap, h1: Heap, p: usize, r0: VCell, r1: VCell) -> bool {
GIM_MODEL_C_BODY
}
/// values maybe_put returns as they are instead of boxing them
pub open spec fn is_immediate(v: VCell) -> bool { v is Number || v is Bool || v is Char || v is Nil || v is Void || v is Undefined }
/// p was free (or beyond the old heap) and is now allocated
pub open spec fn fresh_cell(old: Heap, new: Heap, p: int) -> bool {
    0 <= p < new.len() && (p < old.len() ==> old.state(p) == 0) && new.state(p) == 1
}
/// `&String -> String` conversion copies the text (std: `impl From<&String> for String` clones)
#[verifier::external_body]
pub proof fn axiom_string_from_ref(s: &String)
    ensures <String as vstd::std_specs::convert::FromSpec<&String>>::obeys_from_spec(),
            <String as vstd::std_specs::convert::FromSpec<&String>>::from_spec(s) == *s {}

/// after `alloc` (state `mid`), writing a symbol into the fresh cell p and registering it keeps the invariant
pub proof fn lemma_put_symbol(old: Heap, mid: Heap, new: Heap, p: int, v: VCell, nameref: &String)
    requires old.wf(), mid.wf(), !old.table().contains_key((*nameref)), v matches VCell::Symbol(s) && *s == (*nameref),
        mid.table() == old.table(), mid.len() >= old.len(), fresh_cell(old, mid, p),
        forall|q: int| 0 <= q < old.len() ==> mid.cells()[q] == old.cells()[q],
        forall|q: int| 0 <= q < old.len() && q != p ==> mid.state(q) == old.state(q),
        new.gcmap() == mid.gcmap(), new.free_cells() == mid.free_cells(), new.chunk() == mid.chunk(),
        new.cells() == mid.cells().update(p, v), new.table() == mid.table().insert((*nameref), p as usize),
    ensures new.wf()
{
    assert forall|i: int| 0 <= i < new.free_cells().len() implies (#[trigger] new.free_cells()[i]) < new.len() && new.state(new.free_cells()[i] as int) == 0 by {}
    assert forall|q: int| 0 <= q < new.len() && #[trigger] new.state(q) == 0 implies new.free_cells().contains(q as usize) by { assert(mid.state(q) == 0); }
    assert forall|q: int| 0 <= q < new.len() && new.state(q) == 0 implies (#[trigger] new.cells()[q]) == VCell::Undefined by { assert(mid.state(q) == 0); assert(mid.cells()[q] == VCell::Undefined); }
    assert forall|n: String| #[trigger] new.table().contains_key(n) implies new.interned_at(n, new.table()[n] as int) by {
        if n != (*nameref) {
            assert(old.table().contains_key(n));
            assert(old.interned_at(n, old.table()[n] as int));
            assert(mid.interned_at(n, mid.table()[n] as int));
        }
    }
    assert forall|q: int| 0 <= q < new.len() && new.state(q) != 0 implies new.symbol_cell_interned(q) by {
        if q != p {
            assert(mid.symbol_cell_interned(q));
            match mid.cells()[q] { VCell::Symbol(s2) => { assert(mid.table().contains_key(*s2)); assert(old.table().contains_key(*s2)); } _ => {} }
        }
    }
}
/// ... and so does writing any non-symbol value
pub proof fn lemma_put_plain(mid: Heap, new: Heap, p: int, v: VCell)
    requires mid.wf(), !(v is Symbol), 0 <= p < mid.len(), mid.state(p) == 1, mid.cells()[p] == VCell::Undefined,
        new.gcmap() == mid.gcmap(), new.free_cells() == mid.free_cells(), new.chunk() == mid.chunk(), new.table() == mid.table(),
        new.cells() == mid.cells().update(p, v),
    ensures new.wf()
{
    assert forall|i: int| 0 <= i < new.free_cells().len() implies (#[trigger] new.free_cells()[i]) < new.len() && new.state(new.free_cells()[i] as int) == 0 by {}
    assert forall|q: int| 0 <= q < new.len() && #[trigger] new.state(q) == 0 implies new.free_cells().contains(q as usize) by { assert(mid.state(q) == 0); }
    assert forall|q: int| 0 <= q < new.len() && new.state(q) == 0 implies (#[trigger] new.cells()[q]) == VCell::Undefined by { assert(mid.state(q) == 0); assert(mid.cells()[q] == VCell::Undefined); }
    assert forall|n: String| #[trigger] new.table().contains_key(n) implies new.interned_at(n, new.table()[n] as int) by {
        assert(mid.interned_at(n, mid.table()[n] as int));
        // the fresh cell was not interned: it held Undefined... it is live now but was not a symbol cell of the table
        if mid.table()[n] == p { assert(mid.symbol_cell_interned(p)); }
    }
    assert forall|q: int| 0 <= q < new.len() && new.state(q) != 0 implies new.symbol_cell_interned(q) by {
        if q != p { assert(mid.symbol_cell_interned(q)); }
    }
}
/// C18: within one well-formed heap two interned names share a cell exactly when they are the same name
pub proof fn lemma_intern_unique(h: Heap, a: String, b: String)
    requires h.wf(), h.table().contains_key(a), h.table().contains_key(b)
    ensures (h.table()[a] == h.table()[b]) <==> a == b
{
    assert(h.interned_at(a, h.table()[a] as int));
    assert(h.interned_at(b, h.table()[b] as int));
}
proof fn lemma_names_step(pre: Heap, old: Heap, it: int, name: String)
    requires pre.wf(), old.wf(), 0 <= it < old.len(), pre.swept_upto(old, it),
    ensures pre.name_swept(old, name, it),
        old.table().contains_key(name) ==> old.interned_at(name, old.table()[name] as int) && pre.cell_swept(old, old.table()[name] as int, it),
{
    assert(pre.name_swept(old, name, it));
    if old.table().contains_key(name) {
        assert(old.interned_at(name, old.table()[name] as int));
        assert(pre.cell_swept(old, old.table()[name] as int, it));
    }
}
/// one sweep step over an allocated, unmarked cell: `post` is `pre` after `free(it)`
pub proof fn lemma_sweep_freed(pre: Heap, post: Heap, old: Heap, it: int)
    requires pre.wf(), old.wf(), post.wf(), 0 <= it < old.len(), pre.swept_upto(old, it), pre.state(it) == 1,
        post.len() == pre.len(), post.state(it) == 0, post.cells()[it] == VCell::Undefined,
        forall|p: int| 0 <= p < pre.len() && p != it ==> post.state(p) == pre.state(p) && post.cells()[p] == pre.cells()[p],
        forall|name: String| post.table().contains_key(name) <==> (pre.table().contains_key(name) && pre.table()[name] != it),
        forall|name: String| post.table().contains_key(name) ==> post.table()[name] == pre.table()[name],
    ensures post.swept_upto(old, it + 1)
{
    assert(pre.cell_swept(old, it, it));
    assert forall|p: int| 0 <= p < old.len() implies #[trigger] post.cell_swept(old, p, it + 1) by {
        assert(pre.cell_swept(old, p, it));
    }
    assert forall|name: String| #[trigger] post.name_swept(old, name, it + 1) by {
        lemma_names_step(pre, old, it, name);
        if pre.table().contains_key(name) { assert(pre.interned_at(name, pre.table()[name] as int)); }
    }
}
/// one sweep step over a marked cell: `post` is `pre` with cell `it` set back to allocated
pub proof fn lemma_sweep_kept(pre: Heap, post: Heap, old: Heap, it: int)
    requires pre.wf(), old.wf(), 0 <= it < old.len(), pre.swept_upto(old, it), pre.state(it) == 2,
        post.gcmap().wf(), post.gcmap().cap() == pre.gcmap().cap(), post.state(it) == 1,
        forall|p: int| 0 <= p < pre.len() && p != it ==> post.state(p) == pre.state(p),
        post.cells() == pre.cells(), post.table() == pre.table(), post.free_cells() == pre.free_cells(), post.chunk() == pre.chunk(),
    ensures post.swept_upto(old, it + 1), post.wf()
{
    assert forall|i: int| 0 <= i < post.free_cells().len() implies (#[trigger] post.free_cells()[i]) < post.len() && post.state(post.free_cells()[i] as int) == 0 by {
        assert(pre.free_cells()[i] != it);
    }
    assert forall|p: int| 0 <= p < post.len() && post.state(p) == 0 implies post.free_cells().contains(p as usize) by { assert(pre.state(p) == 0); }
    assert forall|name: String| #[trigger] post.table().contains_key(name) implies post.interned_at(name, post.table()[name] as int) by {
        assert(pre.interned_at(name, pre.table()[name] as int));
    }
    assert forall|p: int| 0 <= p < post.len() && post.state(p) != 0 implies post.symbol_cell_interned(p) by {
        assert(pre.symbol_cell_interned(p));
    }
    assert(pre.cell_swept(old, it, it));
    assert forall|p: int| 0 <= p < old.len() implies #[trigger] post.cell_swept(old, p, it + 1) by {
        assert(pre.cell_swept(old, p, it));
    }
    assert forall|name: String| #[trigger] post.name_swept(old, name, it + 1) by {
        lemma_names_step(pre, old, it, name);
    }
}
/// a free cell needs no work
pub proof fn lemma_sweep_skip(pre: Heap, old: Heap, it: int)
    requires pre.wf(), old.wf(), 0 <= it < old.len(), pre.swept_upto(old, it), pre.state(it) == 0,
    ensures pre.swept_upto(old, it + 1)
{
    assert(pre.cell_swept(old, it, it));
    assert forall|p: int| 0 <= p < old.len() implies #[trigger] pre.cell_swept(old, p, it + 1) by { assert(pre.cell_swept(old, p, it)); }
    assert forall|name: String| #[trigger] pre.name_swept(old, name, it + 1) by { lemma_names_step(pre, old, it, name); }
}
'''

H = ['C03', 'C12']
HS = ['C03', 'C12', 'C18']

FREE_END = '''proof {
    let old_fl = old(self).free_cells();
    assert(self.free_cells() == old_fl.push(ptr));
    assert forall|p: int| 0 <= p < self.len() && self.state(p) == 0 implies self.free_cells().contains(p as usize) by {
        if p == ptr { assert(self.free_cells()[old_fl.len() as int] == ptr); }
        else {
            assert(old(self).state(p) == 0);
            assert(old_fl.contains(p as usize));
            let i = choose|i: int| 0 <= i < old_fl.len() && old_fl[i] == p as usize;
            assert(self.free_cells()[i] == p as usize);
        }
    }
    assert forall|i: int| 0 <= i < self.free_cells().len() implies (#[trigger] self.free_cells()[i]) < self.len() && self.state(self.free_cells()[i] as int) == 0 by {
        if i < old_fl.len() { assert(old_fl[i] != ptr); }
    }
    assert(self.free_cells().no_duplicates()) by {
        assert forall|i: int, j: int| 0 <= i < self.free_cells().len() && 0 <= j < self.free_cells().len() && i != j implies self.free_cells()[i] != self.free_cells()[j] by {
            if i < old_fl.len() && j < old_fl.len() { } else if i < old_fl.len() { assert(old(self).state(old_fl[i] as int) == 0); } else { assert(old(self).state(old_fl[j] as int) == 0); }
        }
    }
    assert forall|name: String| #[trigger] self.table().contains_key(name) implies self.interned_at(name, self.table()[name] as int) by {
        assert(old(self).table().contains_key(name));
        assert(old(self).interned_at(name, old(self).table()[name] as int));
    }
    assert forall|p: int| 0 <= p < self.len() && self.state(p) != 0 implies self.symbol_cell_interned(p) by {
        assert(p != ptr);
        assert(old(self).symbol_cell_interned(p));
        assert(self.cells()[p] == old(self).cells()[p]);
        match self.cells()[p] {
            VCell::Symbol(s) => {
                assert(old(self).table()[*s] == p);
                assert(old(self).interned_at(*s, p));
            }
            _ => {}
        }
    }
    assert forall|name: String| self.table().contains_key(name) <==> (old(self).table().contains_key(name) && old(self).table()[name] != ptr) by {
        if old(self).table().contains_key(name) { assert(old(self).interned_at(name, old(self).table()[name] as int)); }
    }
}'''

ALLOC_PROOF = '''proof {
    let old_fl = old(self).free_cells();
    let n = old_fl.len() as int;
    assert(self.free_cells() == old_fl.drop_last());
    assert(ptr == old_fl[n - 1]);
    assert forall|i: int| 0 <= i < self.free_cells().len() implies (#[trigger] self.free_cells()[i]) < self.len() && self.state(self.free_cells()[i] as int) == 0 by {
        assert(old_fl[i] != old_fl[n - 1]);
    }
    assert forall|p: int| 0 <= p < self.len() && self.state(p) == 0 implies self.free_cells().contains(p as usize) by {
        assert(old(self).state(p) == 0);
        assert(old_fl.contains(p as usize));
        let i = choose|i: int| 0 <= i < n && old_fl[i] == p as usize;
        assert(i != n - 1);
        assert(self.free_cells()[i] == p as usize);
    }
    assert forall|name: String| #[trigger] self.table().contains_key(name) implies self.interned_at(name, self.table()[name] as int) by {
        assert(old(self).interned_at(name, old(self).table()[name] as int));
    }
    assert forall|p: int| 0 <= p < self.len() && self.state(p) != 0 implies self.symbol_cell_interned(p) by {
        if p != ptr { assert(old(self).symbol_cell_interned(p)); }
    }
}'''

UNITS = [{
    'name': 'heap',
    'file': 'src/vm/heap.rs',
    'wrap': ['struct Heap'],
    'wraps_types': ['Heap'],
    'uses_types': ['VCell', 'Cell', 'Continuation', 'Lambda', 'BindingSource', 'RcDeref', 'RcAsRef', 'Vector', 'LexicalEnvironment', 'VectorView', 'EnvView'],
    'prelude': PRELUDE.replace('GIM_MODEL_C_BODY', _builtin_spec.GIM_MODEL_TEMPLATE.replace('DEREF', 'm_deref').replace('LIVE', 'm_live').replace('LEN', 'm_len')).replace('PUT_MODEL_C_BODY', _builtin_spec.PUT_MODEL_TEMPLATE.replace('DEREF', 'm_deref').replace('LIVE', 'm_live')) + heap_mark.MARK_PRELUDE,
    'fns': {
        # f64 arithmetic in the growth policy: contract assumed (Kani-bounded harness heap_grow spot-checks it)
        'impl Heap::grow': {
            'props': H, 'trusted': True,
            'requires': ['old(self).wf()'],
            'ensures': [
                (H, 'final(self).wf() && final(self).len() > old(self).len() && final(self).table() == old(self).table() && final(self).chunk() == old(self).chunk()'),
                (H, 'forall|p: int| 0 <= p < old(self).len() ==> final(self).state(p) == old(self).state(p) && final(self).cells()[p] == old(self).cells()[p]'),
                (H, 'forall|p: int| old(self).len() <= p < final(self).len() ==> final(self).state(p) == 0'),
            ],
        },
        'impl Heap::alloc': {
            'props': HS + ['C06'],
            'requires': ['old(self).wf()'],
            'ensures': [
                (HS, 'final(self).wf() && final(self).len() >= old(self).len() && final(self).table() == old(self).table()'),
                # the cell handed out was free (never an allocated one) and is now allocated; nothing else changes
                (H, 'r < final(self).len() && (r < old(self).len() ==> old(self).state(r as int) == 0) && final(self).state(r as int) == 1 && final(self).cells()[r as int] == VCell::Undefined'),
                (H, 'forall|p: int| 0 <= p < old(self).len() && p != r ==> final(self).state(p) == old(self).state(p)'),
                (H, 'forall|p: int| 0 <= p < old(self).len() ==> final(self).cells()[p] == old(self).cells()[p]'),
                (H, 'forall|p: int| old(self).len() <= p < final(self).len() && p != r ==> final(self).state(p) == 0'),
            ],
            'decreases': '(if old(self).free_cells().len() == 0 { 1int } else { 0int })',
            'inserts': [
                {'anchor': 'self.grow();', 'where': 'before', 'text': '''proof {
                    assert(self.free_cells() == old(self).free_cells());
                    assert(self.cells() == old(self).cells() && self.gcmap() == old(self).gcmap() && self.table() == old(self).table() && self.chunk() == old(self).chunk());
                    assert forall|name: String| #[trigger] self.table().contains_key(name) implies self.interned_at(name, self.table()[name] as int) by {
                        assert(old(self).interned_at(name, old(self).table()[name] as int));
                    }
                    assert forall|p: int| 0 <= p < self.len() && self.state(p) != 0 implies self.symbol_cell_interned(p) by { assert(old(self).symbol_cell_interned(p)); }
                    assert forall|p: int| 0 <= p < self.len() && self.state(p) == 0 implies self.free_cells().contains(p as usize) by { assert(old(self).state(p) == 0); assert(old(self).free_cells().contains(p as usize)); }
                    assert(self.wf());
                }'''},
                {'anchor': 'self.grow();', 'where': 'after', 'text': '''proof {
                    // the grown heap has a free cell, so the recursive call pops one
                    let q = old(self).len();
                    assert(self.state(q) == 0);
                    assert(self.free_cells().contains(q as usize));
                }'''},
                {'anchor': 'self.heap_map.set(ptr, State::Allocated);', 'where': 'after', 'text': ALLOC_PROOF},
            ],
        },
        'impl Heap::put': {
            'props': HS + ['C06'],
            'body_start': 'broadcast use vstd::std_specs::hash::group_hash_axioms; proof { axiom_string_key(); }',
            'requires': ['old(self).wf()', 'into_obeys::<T>()'],
            'inserts': [
                {'anchor': 'let ptr = self.alloc();', 'nth': 0, 'where': 'after', 'text': 'let ghost mid = *self; proof { axiom_string_from_ref(&**sym); }'},
                {'anchor': 'self.symbol_table.insert(sym.deref().into(), ptr);', 'where': 'after', 'text': 'proof { lemma_put_symbol(*old(self), mid, *self, ptr as int, vcell, &**sym); }'},
                {'anchor': 'let ptr = self.alloc();', 'nth': 1, 'where': 'after', 'text': 'let ghost mid = *self;'},
                {'anchor': 'VCell::Ptr(ptr)', 'where': 'before', 'text': 'proof { lemma_put_plain(mid, *self, ptr as int, *vcell); }'},
            ],
            'ensures': [
                (HS, 'final(self).wf() && final(self).len() >= old(self).len()'),
                # live cells are never overwritten; states other than the fresh cell's are kept
                (H, 'forall|p: int| 0 <= p < old(self).len() && old(self).state(p) != 0 ==> final(self).cells()[p] == old(self).cells()[p] && final(self).state(p) == old(self).state(p)'),
                # interning: a symbol whose name is in the table is answered with the table's cell and nothing changes;
                # otherwise it gets a fresh cell that becomes the table entry for exactly that name
                (['C18'], 'into_vcell(vcell) matches VCell::Symbol(s) ==> ((old(self).table().contains_key(*s) ==> r == VCell::Ptr(old(self).table()[*s]) && final(self).table() == old(self).table() && final(self).cells() == old(self).cells() && final(self).gcmap() == old(self).gcmap()) && (!old(self).table().contains_key(*s) ==> (r matches VCell::Ptr(p) && fresh_cell(*old(self), *final(self), p as int) && final(self).cells()[p as int] == into_vcell(vcell) && final(self).table() == old(self).table().insert(*s, p))))'),
                (['C18'], '!(into_vcell(vcell) is Symbol) ==> final(self).table() == old(self).table()'),
                (H, '!(into_vcell(vcell) is Symbol) && !(into_vcell(vcell) is Ptr) ==> (r matches VCell::Ptr(p) && fresh_cell(*old(self), *final(self), p as int) && final(self).cells()[p as int] == into_vcell(vcell))'),
                (H, 'into_vcell(vcell) is Ptr ==> r == into_vcell(vcell) && final(self).cells() == old(self).cells() && final(self).gcmap() == old(self).gcmap()'),
                # the model the opaque-heap groups assume for this function (same text), proved here from the real body
                (['C14', 'C05', 'C04'], 'put_model_c(*old(self), *final(self), into_vcell(vcell), r)'),
            ],
        },
        'impl Heap::maybe_put': {
            'props': HS + ['C06'],
            'body_start': 'broadcast use vstd::std_specs::hash::group_hash_axioms; proof { axiom_string_key(); }',
            'requires': ['old(self).wf()', 'into_obeys::<T>()'],
            'inserts': [
                {'anchor': 'let ptr = self.alloc();', 'nth': 0, 'where': 'after', 'text': 'let ghost mid = *self; proof { axiom_string_from_ref(&**sym); }'},
                {'anchor': 'self.symbol_table.insert(sym.deref().into(), ptr);', 'where': 'after', 'text': 'proof { lemma_put_symbol(*old(self), mid, *self, ptr as int, vcell, &**sym); }'},
                {'anchor': 'let ptr = self.alloc();', 'nth': 1, 'where': 'after', 'text': 'let ghost mid = *self;'},
                {'anchor': 'VCell::Ptr(ptr)', 'where': 'before', 'text': 'proof { lemma_put_plain(mid, *self, ptr as int, *vcell); }'},
            ],
            'ensures': [
                (HS, 'final(self).wf() && final(self).len() >= old(self).len()'),
                # live cells are never overwritten; states other than the fresh cell's are kept
                (H, 'forall|p: int| 0 <= p < old(self).len() && old(self).state(p) != 0 ==> final(self).cells()[p] == old(self).cells()[p] && final(self).state(p) == old(self).state(p)'),
                # interning: a symbol whose name is in the table is answered with the table's cell and nothing changes;
                # otherwise it gets a fresh cell that becomes the table entry for exactly that name
                (['C18'], 'into_vcell(vcell) matches VCell::Symbol(s) ==> ((old(self).table().contains_key(*s) ==> r == VCell::Ptr(old(self).table()[*s]) && final(self).table() == old(self).table() && final(self).cells() == old(self).cells() && final(self).gcmap() == old(self).gcmap()) && (!old(self).table().contains_key(*s) ==> (r matches VCell::Ptr(p) && fresh_cell(*old(self), *final(self), p as int) && final(self).cells()[p as int] == into_vcell(vcell) && final(self).table() == old(self).table().insert(*s, p))))'),
                (['C18'], '!(into_vcell(vcell) is Symbol) ==> final(self).table() == old(self).table()'),
                (H, 'is_immediate(into_vcell(vcell)) ==> r == into_vcell(vcell) && final(self).cells() == old(self).cells() && final(self).gcmap() == old(self).gcmap()'),
                (H, '!(into_vcell(vcell) is Symbol) && !(into_vcell(vcell) is Ptr) && !is_immediate(into_vcell(vcell)) ==> (r matches VCell::Ptr(p) && fresh_cell(*old(self), *final(self), p as int) && final(self).cells()[p as int] == into_vcell(vcell))'),
                (H, 'into_vcell(vcell) is Ptr ==> r == into_vcell(vcell) && final(self).cells() == old(self).cells() && final(self).gcmap() == old(self).gcmap()'),
            ],
        },
        # Heap::get: what a cell designates (the text the opaque-heap groups assume as `heap_deref`, here over m_deref)
        'impl Heap::get': {
            'props': H + ['C14', 'C06'],
            'requires': ['<T as vstd::std_specs::convert::IntoSpec<std::borrow::Cow<VCell>>>::obeys_into_spec()',
                         'cow_val(<T as vstd::std_specs::convert::IntoSpec<std::borrow::Cow<VCell>>>::into_spec(vcell)) matches VCell::Ptr(p) ==> p < self.len()'],
            'ensures': [(H + ['C14'], '<T as vstd::std_specs::convert::IntoSpec<std::borrow::Cow<VCell>>>::obeys_into_spec() ==> r == m_deref(*self, cow_val(<T as vstd::std_specs::convert::IntoSpec<std::borrow::Cow<VCell>>>::into_spec(vcell)))')],
        },
        'impl Heap::get_at_index': {
            'props': H + ['C06'], 'requires': ['ptr < self.len()'],
            'ensures': [(H, '*r == self.cells()[ptr as int]')],
        },
        'impl Heap::get_at_index_mut': {
            'props': H + ['C06'], 'requires': ['ptr < old(self).len()'],
            # hands out exactly one cell: nothing else of the heap changes through the returned reference
            'ensures': [(H, '*r == old(self).cells()[ptr as int]'),
                        (H, 'final(self).cells() == old(self).cells().update(ptr as int, *final(r))'),
                        (H, 'final(self).gcmap() == old(self).gcmap() && final(self).free_cells() == old(self).free_cells() && final(self).table() == old(self).table() && final(self).chunk() == old(self).chunk()'),
                        # the model the opaque-heap groups assume for this function (same text), proved here
                        (['C14'], 'gim_model_c(*old(self), *final(self), ptr, *r, *final(r))')],
        },
        'impl Heap::capacity': {'props': H, 'ensures': [(H, 'r == self.len()')]},
        # declared although the verified functions do not call it (a change that did would be decided, not refused)
        'impl Heap::chunk_size': {'props': ['C06'], 'ensures': [(['C06'], 'r == self.chunk()')]},
        'impl Heap::free_size': {'props': H, 'ensures': [(H, 'r == self.free_cells().len()')]},
        'impl Heap::sweep': {
            'props': HS + ['C06'],
            # facts established before the loop (e.g. a loop bound bound to a local first) stay visible inside it
            'attrs': '#[verifier::loop_isolation(false)]',
            'requires': ['old(self).wf()'],
            'ensures': [
                (HS, 'final(self).wf()'),
                # allocated-and-unmarked cells are freed (C12), marked cells survive untouched and become allocated (C03),
                # free cells stay free; interned names survive exactly when their cell was marked (C18)
                (HS, 'final(self).swept_upto(*old(self), old(self).len())'),
            ],
            'loops': {0: '''invariant
                    self.wf(),
                    self.swept_upto(*old(self), it as int),
                    self.heap@.len() == old(self).len(),
                    old(self).wf(),'''},
            'loop_count': 1,
            'inserts': [
                {'loop_start': 0, 'text': 'let ghost pre = *self; proof { assert(pre.cell_swept(*old(self), it as int, it as int)); }'},
                # one step, by the state the cell had: the lemma preconditions demand exactly the effect of free(it) resp. of
                # resetting the mark, so a step that does something else fails here
                {'loop_end': 0, 'text': '''proof {
                    if pre.state(it as int) == 1 { lemma_sweep_freed(pre, *self, *old(self), it as int); }
                    else if pre.state(it as int) == 2 { lemma_sweep_kept(pre, *self, *old(self), it as int); }
                    else { lemma_sweep_skip(pre, *old(self), it as int); assert(*self == pre); }
                }'''},
            ],
        },
        'impl Heap::free': {
            'props': HS + ['C06'],
            'body_start': 'broadcast use vstd::std_specs::hash::group_hash_axioms; proof { axiom_string_key(); }',
            'body_end': FREE_END,
            'requires': ['old(self).wf()', 'ptr < old(self).len()', 'old(self).state(ptr as int) != 0'],
            'ensures': [
                (HS, 'final(self).wf()'),
                (H, 'final(self).len() == old(self).len()'),
                (H, 'final(self).state(ptr as int) == 0 && final(self).cells()[ptr as int] == VCell::Undefined'),
                (H, 'forall|p: int| 0 <= p < old(self).len() && p != ptr ==> final(self).state(p) == old(self).state(p) && final(self).cells()[p] == old(self).cells()[p]'),
                (['C18', 'C12'], 'forall|name: String| final(self).table().contains_key(name) <==> (old(self).table().contains_key(name) && old(self).table()[name] != ptr)'),
                (['C18'], 'forall|name: String| final(self).table().contains_key(name) ==> final(self).table()[name] == old(self).table()[name]'),
            ],
        },
    },
}]

UNITS[0]['fns'].update(heap_mark.MARK_FNS)
