"""Unit `heap`: marwood/src/vm/heap.rs — allocation, interning, free, sweep, mark (C03, C12, C18)."""

PRELUDE = r'''
use vstd::std_specs::hash::*;
/// String keys hash and compare lawfully (std); needed for vstd's HashMap model
#[verifier::external_body]
pub proof fn axiom_string_key() ensures obeys_key_model::<String>(), builds_valid_hashers::<std::collections::hash_map::RandomState>() {}

impl Heap {
    pub closed spec fn cells(&self) -> Seq<VCell> { self.heap@ }
    pub closed spec fn gcmap(&self) -> gc::Map { self.heap_map }
    pub closed spec fn free_cells(&self) -> Seq<usize> { self.free_list@ }
    pub closed spec fn table(&self) -> Map<String, usize> { self.symbol_table@ }
    pub closed spec fn chunk(&self) -> usize { self.chunk_size }
    pub open spec fn len(&self) -> int { self.cells().len() as int }
    /// 0 free, 1 allocated, 2 used
    pub open spec fn state(&self, p: int) -> u8 { self.gcmap().state_bits(p) }

    /// Representation invariant.
    pub open spec fn wf(&self) -> bool {
        &&& self.gcmap().wf()
        &&& self.gcmap().cap() == self.len()
        &&& self.chunk() > 0
        // free list: in range, distinct, and exactly the cells in state Free
        &&& forall|i: int| 0 <= i < self.free_cells().len() ==> (#[trigger] self.free_cells()[i]) < self.len() && self.state(self.free_cells()[i] as int) == 0
        &&& self.free_cells().no_duplicates()
        &&& forall|p: int| 0 <= p < self.len() && #[trigger] self.state(p) == 0 ==> self.free_cells().contains(p as usize)
        // a free cell holds no stale value (so a cell handed out by alloc never carries an old symbol)
        &&& forall|p: int| 0 <= p < self.len() && self.state(p) == 0 ==> (#[trigger] self.cells()[p]) == VCell::Undefined
        // intern table: every entry points at a live cell holding that very symbol
        &&& forall|name: String| #[trigger] self.table().contains_key(name) ==> self.interned_at(name, self.table()[name] as int)
        // ... and every live symbol cell is the table's entry for its name (so a name has one live cell)
        &&& forall|p: int| 0 <= p < self.len() && self.state(p) != 0 ==> self.symbol_cell_interned(p)
    }
    pub open spec fn symbol_cell_interned(&self, p: int) -> bool {
        (#[trigger] self.cells()[p]) matches VCell::Symbol(s) ==> self.table().contains_key(*s) && self.table()[*s] == p
    }
    pub open spec fn interned_at(&self, name: String, p: int) -> bool {
        0 <= p < self.len() && self.state(p) != 0 && (self.cells()[p] matches VCell::Symbol(s) && *s == name)
    }

    /// effect on cell p of a sweep that has processed the cells below `upto`
    pub open spec fn cell_swept(&self, old: Heap, p: int, upto: int) -> bool {
        if p >= upto || old.state(p) == 0 { self.state(p) == old.state(p) && self.cells()[p] == old.cells()[p] }
        else if old.state(p) == 1 { self.state(p) == 0 && self.cells()[p] == VCell::Undefined }
        else { self.state(p) == 1 && self.cells()[p] == old.cells()[p] }
    }
    pub open spec fn name_swept(&self, old: Heap, name: String, upto: int) -> bool {
        &&& self.table().contains_key(name) <==> (old.table().contains_key(name) && !(old.table()[name] < upto && old.state(old.table()[name] as int) == 1))
        &&& self.table().contains_key(name) ==> self.table()[name] == old.table()[name]
    }
    pub open spec fn swept_upto(&self, old: Heap, upto: int) -> bool {
        &&& self.len() == old.len()
        &&& forall|p: int| 0 <= p < old.len() ==> #[trigger] self.cell_swept(old, p, upto)
        &&& forall|name: String| #[trigger] self.name_swept(old, name, upto)
    }
}

proof fn lemma_names_step(pre: Heap, old: Heap, it: int, name: String)
    requires pre.wf(), old.wf(), 0 <= it < old.len(), pre.swept_upto(old, it),
    ensures pre.name_swept(old, name, it),
        old.table().contains_key(name) ==> old.interned_at(name, old.table()[name] as int) && pre.cell_swept(old, old.table()[name] as int, it),
{
    assert(pre.name_swept(old, name, it));
    if old.table().contains_key(name) {
        assert(old.interned_at(name, old.table()[name] as int));
        assert(pre.cell_swept(old, old.table()[name] as int, it));
    }
}
/// one sweep step over an allocated, unmarked cell: `post` is `pre` after `free(it)`
pub proof fn lemma_sweep_freed(pre: Heap, post: Heap, old: Heap, it: int)
    requires pre.wf(), old.wf(), post.wf(), 0 <= it < old.len(), pre.swept_upto(old, it), pre.state(it) == 1,
        post.len() == pre.len(), post.state(it) == 0, post.cells()[it] == VCell::Undefined,
        forall|p: int| 0 <= p < pre.len() && p != it ==> post.state(p) == pre.state(p) && post.cells()[p] == pre.cells()[p],
        forall|name: String| post.table().contains_key(name) <==> (pre.table().contains_key(name) && pre.table()[name] != it),
        forall|name: String| post.table().contains_key(name) ==> post.table()[name] == pre.table()[name],
    ensures post.swept_upto(old, it + 1)
{
    assert(pre.cell_swept(old, it, it));
    assert forall|p: int| 0 <= p < old.len() implies #[trigger] post.cell_swept(old, p, it + 1) by {
        assert(pre.cell_swept(old, p, it));
    }
    assert forall|name: String| #[trigger] post.name_swept(old, name, it + 1) by {
        lemma_names_step(pre, old, it, name);
        if pre.table().contains_key(name) { assert(pre.interned_at(name, pre.table()[name] as int)); }
    }
}
/// one sweep step over a marked cell: `post` is `pre` with cell `it` set back to allocated
pub proof fn lemma_sweep_kept(pre: Heap, post: Heap, old: Heap, it: int)
    requires pre.wf(), old.wf(), 0 <= it < old.len(), pre.swept_upto(old, it), pre.state(it) == 2,
        post.gcmap().wf(), post.gcmap().cap() == pre.gcmap().cap(), post.state(it) == 1,
        forall|p: int| 0 <= p < pre.len() && p != it ==> post.state(p) == pre.state(p),
        post.cells() == pre.cells(), post.table() == pre.table(), post.free_cells() == pre.free_cells(), post.chunk() == pre.chunk(),
    ensures post.swept_upto(old, it + 1), post.wf()
{
    assert forall|i: int| 0 <= i < post.free_cells().len() implies (#[trigger] post.free_cells()[i]) < post.len() && post.state(post.free_cells()[i] as int) == 0 by {
        assert(pre.free_cells()[i] != it);
    }
    assert forall|p: int| 0 <= p < post.len() && post.state(p) == 0 implies post.free_cells().contains(p as usize) by { assert(pre.state(p) == 0); }
    assert forall|name: String| #[trigger] post.table().contains_key(name) implies post.interned_at(name, post.table()[name] as int) by {
        assert(pre.interned_at(name, pre.table()[name] as int));
    }
    assert forall|p: int| 0 <= p < post.len() && post.state(p) != 0 implies post.symbol_cell_interned(p) by {
        assert(pre.symbol_cell_interned(p));
    }
    assert(pre.cell_swept(old, it, it));
    assert forall|p: int| 0 <= p < old.len() implies #[trigger] post.cell_swept(old, p, it + 1) by {
        assert(pre.cell_swept(old, p, it));
    }
    assert forall|name: String| #[trigger] post.name_swept(old, name, it + 1) by {
        lemma_names_step(pre, old, it, name);
    }
}
/// a free cell needs no work
pub proof fn lemma_sweep_skip(pre: Heap, old: Heap, it: int)
    requires pre.wf(), old.wf(), 0 <= it < old.len(), pre.swept_upto(old, it), pre.state(it) == 0,
    ensures pre.swept_upto(old, it + 1)
{
    assert(pre.cell_swept(old, it, it));
    assert forall|p: int| 0 <= p < old.len() implies #[trigger] pre.cell_swept(old, p, it + 1) by { assert(pre.cell_swept(old, p, it)); }
    assert forall|name: String| #[trigger] pre.name_swept(old, name, it + 1) by { lemma_names_step(pre, old, it, name); }
}
'''

H = ['C03', 'C12']
HS = ['C03', 'C12', 'C18']

FREE_END = '''proof {
    let old_fl = old(self).free_cells();
    assert(self.free_cells() == old_fl.push(ptr));
    assert forall|p: int| 0 <= p < self.len() && self.state(p) == 0 implies self.free_cells().contains(p as usize) by {
        if p == ptr { assert(self.free_cells()[old_fl.len() as int] == ptr); }
        else {
            assert(old(self).state(p) == 0);
            assert(old_fl.contains(p as usize));
            let i = choose|i: int| 0 <= i < old_fl.len() && old_fl[i] == p as usize;
            assert(self.free_cells()[i] == p as usize);
        }
    }
    assert forall|i: int| 0 <= i < self.free_cells().len() implies (#[trigger] self.free_cells()[i]) < self.len() && self.state(self.free_cells()[i] as int) == 0 by {
        if i < old_fl.len() { assert(old_fl[i] != ptr); }
    }
    assert(self.free_cells().no_duplicates()) by {
        assert forall|i: int, j: int| 0 <= i < self.free_cells().len() && 0 <= j < self.free_cells().len() && i != j implies self.free_cells()[i] != self.free_cells()[j] by {
            if i < old_fl.len() && j < old_fl.len() { } else if i < old_fl.len() { assert(old(self).state(old_fl[i] as int) == 0); } else { assert(old(self).state(old_fl[j] as int) == 0); }
        }
    }
    assert forall|name: String| #[trigger] self.table().contains_key(name) implies self.interned_at(name, self.table()[name] as int) by {
        assert(old(self).table().contains_key(name));
        assert(old(self).interned_at(name, old(self).table()[name] as int));
    }
    assert forall|p: int| 0 <= p < self.len() && self.state(p) != 0 implies self.symbol_cell_interned(p) by {
        assert(p != ptr);
        assert(old(self).symbol_cell_interned(p));
        assert(self.cells()[p] == old(self).cells()[p]);
        match self.cells()[p] {
            VCell::Symbol(s) => {
                assert(old(self).table()[*s] == p);
                assert(old(self).interned_at(*s, p));
            }
            _ => {}
        }
    }
    assert forall|name: String| self.table().contains_key(name) <==> (old(self).table().contains_key(name) && old(self).table()[name] != ptr) by {
        if old(self).table().contains_key(name) { assert(old(self).interned_at(name, old(self).table()[name] as int)); }
    }
}'''

ALLOC_PROOF = '''proof {
    let old_fl = old(self).free_cells();
    let n = old_fl.len() as int;
    assert(self.free_cells() == old_fl.drop_last());
    assert(ptr == old_fl[n - 1]);
    assert forall|i: int| 0 <= i < self.free_cells().len() implies (#[trigger] self.free_cells()[i]) < self.len() && self.state(self.free_cells()[i] as int) == 0 by {
        assert(old_fl[i] != old_fl[n - 1]);
    }
    assert forall|p: int| 0 <= p < self.len() && self.state(p) == 0 implies self.free_cells().contains(p as usize) by {
        assert(old(self).state(p) == 0);
        assert(old_fl.contains(p as usize));
        let i = choose|i: int| 0 <= i < n && old_fl[i] == p as usize;
        assert(i != n - 1);
        assert(self.free_cells()[i] == p as usize);
    }
    assert forall|name: String| #[trigger] self.table().contains_key(name) implies self.interned_at(name, self.table()[name] as int) by {
        assert(old(self).interned_at(name, old(self).table()[name] as int));
    }
    assert forall|p: int| 0 <= p < self.len() && self.state(p) != 0 implies self.symbol_cell_interned(p) by {
        if p != ptr { assert(old(self).symbol_cell_interned(p)); }
    }
}'''

UNITS = [{
    'name': 'heap',
    'file': 'src/vm/heap.rs',
    'wrap': ['struct Heap'],
    'wraps_types': ['Heap'],
    'uses_types': ['VCell', 'Cell', 'Continuation', 'Lambda'],
    'prelude': PRELUDE,
    'fns': {
        # f64 arithmetic in the growth policy: contract assumed (Kani-bounded harness heap_grow spot-checks it)
        'impl Heap::grow': {
            'props': H, 'trusted': True,
            'requires': ['old(self).wf()'],
            'ensures': [
                (H, 'final(self).wf() && final(self).len() > old(self).len() && final(self).table() == old(self).table() && final(self).chunk() == old(self).chunk()'),
                (H, 'forall|p: int| 0 <= p < old(self).len() ==> final(self).state(p) == old(self).state(p) && final(self).cells()[p] == old(self).cells()[p]'),
                (H, 'forall|p: int| old(self).len() <= p < final(self).len() ==> final(self).state(p) == 0'),
            ],
        },
        'impl Heap::alloc': {
            'props': HS + ['C06'],
            'requires': ['old(self).wf()'],
            'ensures': [
                (HS, 'final(self).wf() && final(self).len() >= old(self).len() && final(self).table() == old(self).table()'),
                # the cell handed out was free (never an allocated one) and is now allocated; nothing else changes
                (H, 'r < final(self).len() && (r < old(self).len() ==> old(self).state(r as int) == 0) && final(self).state(r as int) == 1'),
                (H, 'forall|p: int| 0 <= p < old(self).len() && p != r ==> final(self).state(p) == old(self).state(p)'),
                (H, 'forall|p: int| 0 <= p < old(self).len() ==> final(self).cells()[p] == old(self).cells()[p]'),
                (H, 'forall|p: int| old(self).len() <= p < final(self).len() && p != r ==> final(self).state(p) == 0'),
            ],
            'decreases': '(if old(self).free_cells().len() == 0 { 1int } else { 0int })',
            'inserts': [
                {'anchor': 'self.grow();', 'where': 'before', 'text': '''proof {
                    assert(self.free_cells() == old(self).free_cells());
                    assert(self.cells() == old(self).cells() && self.gcmap() == old(self).gcmap() && self.table() == old(self).table() && self.chunk() == old(self).chunk());
                    assert forall|name: String| #[trigger] self.table().contains_key(name) implies self.interned_at(name, self.table()[name] as int) by {
                        assert(old(self).interned_at(name, old(self).table()[name] as int));
                    }
                    assert forall|p: int| 0 <= p < self.len() && self.state(p) != 0 implies self.symbol_cell_interned(p) by { assert(old(self).symbol_cell_interned(p)); }
                    assert forall|p: int| 0 <= p < self.len() && self.state(p) == 0 implies self.free_cells().contains(p as usize) by { assert(old(self).state(p) == 0); assert(old(self).free_cells().contains(p as usize)); }
                    assert(self.wf());
                }'''},
                {'anchor': 'self.grow();', 'where': 'after', 'text': '''proof {
                    // the grown heap has a free cell, so the recursive call pops one
                    let q = old(self).len();
                    assert(self.state(q) == 0);
                    assert(self.free_cells().contains(q as usize));
                }'''},
                {'anchor': 'self.heap_map.set(ptr, State::Allocated);', 'where': 'after', 'text': ALLOC_PROOF},
            ],
        },
        'impl Heap::sweep': {
            'props': HS + ['C06'],
            'requires': ['old(self).wf()'],
            'ensures': [
                (HS, 'final(self).wf()'),
                # allocated-and-unmarked cells are freed (C12), marked cells survive untouched and become allocated (C03),
                # free cells stay free; interned names survive exactly when their cell was marked (C18)
                (HS, 'final(self).swept_upto(*old(self), old(self).len())'),
            ],
            'loops': {0: '''invariant
                    self.wf(),
                    self.swept_upto(*old(self), it as int),
                    self.heap@.len() == old(self).len(),
                    old(self).wf(),'''},
            'loop_count': 1,
            'inserts': [
                {'anchor': 'self.free(it);', 'where': 'before', 'text': 'let ghost pre = *self; proof { assert(pre.cell_swept(*old(self), it as int, it as int)); }'},
                {'anchor': 'self.free(it);', 'where': 'after', 'text': 'proof { lemma_sweep_freed(pre, *self, *old(self), it as int); }'},
                {'anchor': 'self.heap_map.set(it, State::Allocated);', 'where': 'before', 'text': 'let ghost pre = *self; proof { assert(pre.cell_swept(*old(self), it as int, it as int)); }'},
                {'anchor': 'self.heap_map.set(it, State::Allocated);', 'where': 'after', 'text': 'proof { lemma_sweep_kept(pre, *self, *old(self), it as int); }'},
                {'anchor': '_ => {', 'where': 'after', 'text': 'proof { assert(self.cell_swept(*old(self), it as int, it as int)); lemma_sweep_skip(*self, *old(self), it as int); }'},
            ],
        },
        'impl Heap::free': {
            'props': HS + ['C06'],
            'body_start': 'broadcast use vstd::std_specs::hash::group_hash_axioms; proof { axiom_string_key(); }',
            'body_end': FREE_END,
            'requires': ['old(self).wf()', 'ptr < old(self).len()', 'old(self).state(ptr as int) != 0'],
            'ensures': [
                (HS, 'final(self).wf()'),
                (H, 'final(self).len() == old(self).len()'),
                (H, 'final(self).state(ptr as int) == 0 && final(self).cells()[ptr as int] == VCell::Undefined'),
                (H, 'forall|p: int| 0 <= p < old(self).len() && p != ptr ==> final(self).state(p) == old(self).state(p) && final(self).cells()[p] == old(self).cells()[p]'),
                (['C18', 'C12'], 'forall|name: String| final(self).table().contains_key(name) <==> (old(self).table().contains_key(name) && old(self).table()[name] != ptr)'),
                (['C18'], 'forall|name: String| final(self).table().contains_key(name) ==> final(self).table()[name] == old(self).table()[name]'),
            ],
        },
    },
}]
