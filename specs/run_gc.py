"""Unit `run_gc`: marwood/src/vm/run.rs, Vm::run_gc -- the root enumeration of the collector (C03).

Runs in group `gcroots` together with the units it calls into (heap, stack, globenv), so the calls are checked against the
*verified* contracts of Heap::mark / mark_vcell / sweep, Stack::iter_to_sp and GlobalEnvironment::iter_bindings / iter_slots;
nothing about them is assumed here.

The three `.for_each(|it| ..)` statements of run_gc are closures that capture `&mut self.heap`, which Verus refuses; the
pre-rewrite `for_each_loops` (tool/annotate.py) desugars them mechanically into the `for` loops they are defined to be.

What is decided: at the moment `self.heap.sweep()` is called every root is marked -- the symbol of every global binding, the
object of every global slot, whatever the live stack slots 0..=sp, the accumulator, %ip's code object and %ep refer to -- and the
marked set is closed (every cell marked since entry has all its children marked).  Together with sweep's verified contract
(marked cells survive untouched) this is "no object reachable from the machine state is reclaimed".
"""

PRELUDE = r'''
use crate::vm::heap::Heap; use crate::vm::stack::Stack; use crate::vm::environment::GlobalEnvironment;
use crate::vm::heap::{vkid, axiom_vkids, lemma_mark_refl, lemma_mark_trans, lemma_mark_sub};
use vstd::std_specs::iter::IteratorSpec;
/// stand-in for the two f64 utilisation comparisons of run_gc (pre-rewrite f64_gates): an unspecified boolean
#[verifier::external_body]
pub fn verif_f64_gate(a: usize, b: usize) -> bool { unimplemented!() }
/// every root of the machine state `vm` is marked in heap `h`
pub open spec fn roots_marked(vm: Vm, h: Heap) -> bool {
    &&& forall|i: int, k: int| 0 <= i <= vm.stack_spec().sp_spec() && #[trigger] vkid(vm.stack_spec().cells()[i], k) && 0 <= k < h.len() ==> h.marked(k)
    &&& forall|k: int| #[trigger] vkid(vm.acc_spec(), k) && 0 <= k < h.len() ==> h.marked(k)
    &&& (h.in_range(vm.regs().1.0 as int) ==> h.marked(vm.regs().1.0 as int))
    &&& (h.in_range(vm.regs().0 as int) ==> h.marked(vm.regs().0 as int))
    &&& forall|s: usize| #[trigger] vm.globenv_spec().bindings_spec().contains_key(s) && h.in_range(s as int) ==> h.marked(s as int)
    &&& forall|j: int| 0 <= j < vm.globenv_spec().slots_spec().len() ==> (#[trigger] vm.globenv_spec().slots_spec()[j] matches VCell::Ptr(p) ==> (h.in_range(p as int) ==> h.marked(p as int)))
}
'''

G = ['C03']
FRAME = 'self.stack_spec() == old(self).stack_spec() && self.regs() == old(self).regs() && self.acc_spec() == old(self).acc_spec() && self.globenv_spec() == old(self).globenv_spec() && h0.markable() && h0 == old(self).heap_spec()'
BINDINGS_DONE = 'forall|s: usize| #[trigger] self.globenv_spec().bindings_spec().contains_key(s) && h0.in_range(s as int) ==> self.heap_spec().marked(s as int)'
SLOTS_DONE = 'forall|j: int| 0 <= j < self.globenv_spec().slots_spec().len() ==> (#[trigger] self.globenv_spec().slots_spec()[j] matches VCell::Ptr(p) ==> (h0.in_range(p as int) ==> self.heap_spec().marked(p as int)))'
UNITS = [{
    'name': 'run_gc',
    'file': 'src/vm/run.rs',
    'uses_types': ['Cell', 'Error', 'StackTrace', 'VCell'],
    'prelude': PRELUDE,
    'fns': {
        'impl Vm::run_gc': {
            'props': G + ['C06'],
            'pre_rewrites': ['for_each_loops', 'f64_gates'],
            'attrs': '#[verifier::exec_allows_no_decreases_clause]',
            'requires': ['old(self).heap_spec().markable()', 'old(self).stack_spec().wf()', 'old(self).globenv_spec().wf()'],
            'ensures': [# the machine state itself is not touched by a collection
                        (G, 'final(self).stack_spec() == old(self).stack_spec() && final(self).regs() == old(self).regs() && final(self).acc_spec() == old(self).acc_spec() && final(self).globenv_spec() == old(self).globenv_spec()')],
            'body_start': 'let ghost h0 = self.heap_spec(); proof { lemma_mark_refl(h0); axiom_vkids(self.acc_spec()); }',
            'loop_iter': {0: 'itb', 1: 'its', 2: 'itk'},
            'loops': {
                # the symbol of every global binding
                0: '''invariant FRAME, self.heap_spec().mark_ok(h0),
                        itb.iter.obeys_prophetic_iter_laws(), itb.iter.decrease() is Some,
                        forall|s: usize| self.globenv_spec().bindings_spec().contains_key(s) ==> exists|j: int| 0 <= j < itb.seq().len() && *(#[trigger] itb.seq()[j]) == s,
                        forall|j: int| 0 <= j < itb.index@ && h0.in_range(*(#[trigger] itb.seq()[j]) as int) ==> self.heap_spec().marked(*itb.seq()[j] as int),
                    ensures FRAME, self.heap_spec().mark_ok(h0), BINDINGS_DONE,''',
                # the object every global slot designates
                1: '''invariant FRAME, self.heap_spec().mark_ok(h0), BINDINGS_DONE,
                        its.iter.obeys_prophetic_iter_laws(), its.iter.decrease() is Some, its.seq().len() == self.globenv_spec().slots_spec().len(),
                        forall|j: int| 0 <= j < its.seq().len() ==> *(#[trigger] its.seq()[j]) == self.globenv_spec().slots_spec()[j],
                        forall|j: int| 0 <= j < its.index@ ==> (#[trigger] self.globenv_spec().slots_spec()[j] matches VCell::Ptr(p) ==> (h0.in_range(p as int) ==> self.heap_spec().marked(p as int))),
                    ensures FRAME, self.heap_spec().mark_ok(h0), BINDINGS_DONE, SLOTS_DONE,''',
                # whatever the live stack slots 0..=sp refer to
                2: '''invariant FRAME, self.heap_spec().mark_ok(h0), BINDINGS_DONE, SLOTS_DONE,
                        itk.iter.obeys_prophetic_iter_laws(), itk.iter.decrease() is Some, itk.seq().len() >= self.stack_spec().sp_spec() + 1,
                        forall|i: int| 0 <= i <= self.stack_spec().sp_spec() ==> *(#[trigger] itk.seq()[i]) == self.stack_spec().cells()[i],
                        forall|i: int, k: int| 0 <= i < itk.index@ && #[trigger] vkid(self.stack_spec().cells()[i], k) && 0 <= k < h0.len() ==> self.heap_spec().marked(k),
                    ensures FRAME, self.heap_spec().mark_ok(h0), BINDINGS_DONE, SLOTS_DONE,
                        forall|i: int, k: int| 0 <= i <= self.stack_spec().sp_spec() && #[trigger] vkid(self.stack_spec().cells()[i], k) && 0 <= k < h0.len() ==> self.heap_spec().marked(k),''',
            },
            'loop_count': 3,
            # the obligation of this function: stated where the sweep is started
            'obligations': [{'anchor': 'self.heap.sweep();', 'where': 'before', 'asserts': [
                (G, 'self.heap_spec().mark_ok(old(self).heap_spec())'),
                (G, 'roots_marked(*self, self.heap_spec())')]}],
            # C12: the stack roots are the live slots only (slots above the stack pointer belong to frames that have returned)
            'loop_obligations': {2: [(['C12'], 'itk.seq().len() == self.stack_spec().sp_spec() + 1')]},
        },
    },
}]
_f = UNITS[0]['fns']['impl Vm::run_gc']
_f['loops'] = dict((k, v.replace('BINDINGS_DONE', BINDINGS_DONE).replace('SLOTS_DONE', SLOTS_DONE).replace('FRAME', FRAME)) for k, v in _f['loops'].items())
