"""Unit `trace`: marwood/src/vm/trace.rs, StackTrace::new -- the stack trace of a failed evaluation.  NOT part of any claimed property
(group `trace` is run by no check); kept as a verified fact about the code and as a record of a check that demanded more than C07 states.

Decided: the trace is built from the live part of the stack only.  Its length is 1 (the running procedure), plus 1 if the failing
instruction was a call of a builtin, plus the number of return addresses among the slots BELOW the stack pointer; slots at or above
the stack pointer (frames that have returned) contribute nothing.
"""

PRELUDE = r'''
use crate::vm::lambda::Lambda;
pub uninterp spec fn heap_deref(h: Heap, c: VCell) -> VCell;
pub uninterp spec fn cow_cell<T>(x: T) -> VCell;
pub assume_specification<'a, T: Into<std::borrow::Cow<'a, VCell>>> [Heap::get] (h: &Heap, v: T) -> (r: VCell) ensures r == heap_deref(*h, cow_cell(v));
/// assumed total (panics on an index beyond the heap)
pub assume_specification [Heap::get_at_index] (h: &Heap, i: usize) -> (r: &VCell) ensures *r == heap_deref(*h, VCell::Ptr(i));
pub assume_specification [VCell::as_lambda] (v: &VCell) -> (r: Result<&Lambda, crate::error::Error>)
    ensures *v matches VCell::Lambda(l) ==> (r matches Ok(x) && *x == *l), !(*v is Lambda) ==> r is Err;
pub assume_specification [VCell::as_opcode] (v: &VCell) -> (r: Result<crate::vm::opcode::OpCode, crate::error::Error>)
    ensures *v matches VCell::OpCode(op) ==> r == Ok::<crate::vm::opcode::OpCode, crate::error::Error>(op), !(*v is OpCode) ==> r is Err;
pub assume_specification [Lambda::get] (l: &Lambda, i: usize) -> (r: Option<&VCell>)
    ensures i < l.bc@.len() ==> (r matches Some(c) && *c == l.bc@[i as int]), i >= l.bc@.len() ==> r is None;
pub assume_specification [crate::vm::vcell::BuiltInProc::desc] (p: &crate::vm::vcell::BuiltInProc) -> (r: &'static str);
/// number of return addresses among the slots lo .. hi-1
pub open spec fn ret_range(cells: Seq<VCell>, lo: int, hi: int) -> int decreases hi - lo {
    if lo >= hi { 0 } else { (if cells[lo] is InstructionPointer { 1int } else { 0int }) + ret_range(cells, lo + 1, hi) }
}
/// every return address below the stack pointer designates a code object (StackTrace::new unwraps it)
pub proof fn lemma_ret_range_mono(cells: Seq<VCell>, lo: int, hi: int) ensures ret_range(cells, lo, hi) <= ret_range(cells, lo, hi + 1), 0 <= ret_range(cells, lo, hi) decreases hi - lo
{ if lo < hi { lemma_ret_range_mono(cells, lo + 1, hi); } else if lo == hi { assert(ret_range(cells, lo + 1, hi + 1) == 0); } }
pub open spec fn frames_ok(s: Stack, h: Heap) -> bool {
    forall|i: int| 0 <= i < s.sp_spec() ==> ((#[trigger] s.cells()[i]) matches VCell::InstructionPointer(l, o) ==> heap_deref(h, VCell::Ptr(l)) is Lambda)
}
'''

# not tagged with any listed property: C07 speaks about evaluations AFTER a failed one, and every evaluation starts on a wiped stack, so
# which slots the trace builder scans cannot make a later trace depend on an earlier failure (see DESIGN section 4)
T = ['C06']
UNITS = [{
    'name': 'trace',
    'file': 'src/vm/trace.rs',
    'wrap': ['struct StackFrame', 'struct StackTrace'],
    'wraps_types': ['StackTrace', 'StackFrame'],
    'uses_types': ['CellT', 'OpCodeT', 'VCell', 'Error', 'Heap', 'Lambda', 'BuiltInProc'],
    'prelude': PRELUDE,
    'fns': {
        'impl StackTrace::new': {
            'props': T + ['C06'],
            'attrs': '#[verifier::exec_allows_no_decreases_clause]',
            'requires': ['stack.wf()', 'frames_ok(*stack, *heap)',
                         # the failing instruction exists: %ip designates a code object and sits behind an instruction of it
                         'heap_deref(*heap, VCell::Ptr(ip.0)) matches VCell::Lambda(l) && 0 < ip.1 <= l.bc@.len() && l.bc@[0] is OpCode'],
            'loop_iter': {1: 'itr'},
            'loops': {
                0: 'invariant ip_idx < ip.bc@.len(), ip.bc@[0] is OpCode,',
                1: '''invariant stack.wf(), frames_ok(*stack, *heap),
                        frames@.len() == base + ret_range(stack.cells(), stack.sp_spec() - itr.index@, stack.sp_spec() as int),''',
            },
            'loop_heads': {0: 'while', 1: 'for sp in'},
            'inserts': [{'anchor': ['for sp in (0..stack.get_sp()).rev() {', 'for sp in '], 'where': 'before', 'text': 'let ghost base = frames@.len();'},
                        {'anchor': 'StackTrace { frames }', 'where': 'before', 'text': 'proof { lemma_ret_range_mono(stack.cells(), 0, stack.sp_spec() as int); }'}],
            'ensures': [(T, 'r.frames@.len() >= 1 + ret_range(stack.cells(), 0, stack.sp_spec() as int)'),
                        # the top slot %sp itself is live state: whether it is scanned (today it is not) is not a matter of C07
                        (T, 'r.frames@.len() <= 2 + ret_range(stack.cells(), 0, stack.sp_spec() + 1)')],
        },
    },
}]
