"""Mark phase contracts for unit `heap` (imported by heap.py): prelude text and per-function specs."""

MARK_PRELUDE = r'''
// ================================================================= mark phase
use crate::vm::vector::Vector;
use crate::vm::environment::LexicalEnvironment;
use crate::{vector_view, env_view};
/// heap cells a continuation refers to: whatever the slots of its saved stack refer to, the code object of its saved instruction
/// pointer and its saved environment (views and getters: unit `continuation`, verified, same group)
use crate::vm::stack::Stack;
use vstd::std_specs::iter::IteratorSpec;
use crate::vm::continuation::{cont_stack, cont_regs};
pub open spec fn cont_kid(c: Continuation, k: int) -> bool {
    seq_kid(cont_stack(c).cells(), k) || k == cont_regs(c).1.0 || k == cont_regs(c).0
}
/// a code object refers to whatever its bytecode cells, its formal-argument cells and the symbols of its environment map refer to
pub uninterp spec fn envmap_view(m: crate::vm::environment::EnvironmentMap) -> Seq<(VCell, crate::vm::environment::BindingSource)>;
pub assume_specification [crate::vm::environment::EnvironmentMap::get_map] (m: &crate::vm::environment::EnvironmentMap) -> (r: &[(VCell, crate::vm::environment::BindingSource)])
    ensures r@ == envmap_view(*m);
pub open spec fn lambda_kid(l: Lambda, k: int) -> bool {
    seq_kid(l.bc@, k) || seq_kid(l.args@, k) || exists|i: int| 0 <= i < envmap_view(l.envmap).len() && #[trigger] vkid(envmap_view(l.envmap)[i].0, k)
}
/// heap cells a by-value cell refers to directly (what mark_vcell must follow); recursive through
/// vector payloads, hence axiomatised rather than defined
pub uninterp spec fn vkid(v: VCell, k: int) -> bool;
pub open spec fn seq_kid(s: Seq<VCell>, k: int) -> bool { exists|i: int| 0 <= i < s.len() && #[trigger] vkid(s[i], k) }
#[verifier::external_body]
pub proof fn axiom_vkids(v: VCell)
    ensures forall|k: int| #[trigger] vkid(v, k) == (match v {
        VCell::InstructionPointer(l, _) => k == l,
        VCell::Closure(l, e) => k == l || k == e,
        VCell::Pair(a, d) => k == a || k == d,
        VCell::Ptr(p) => k == p,
        VCell::LexicalEnvPtr(p, _) => k == p,
        VCell::EnvironmentPointer(e) => k == e,
        VCell::Continuation(c) => cont_kid(*c, k),
        VCell::Lambda(l) => lambda_kid(*l, k),
        VCell::Vector(vec) => seq_kid(vector_view(*vec), k),
        _ => false,
    })
{}
/// heap cells the cell stored at a heap address refers to (what `mark` must follow)
pub open spec fn ckid(v: VCell, k: int) -> bool {
    match v {
        VCell::Pair(a, d) => k == a || k == d,
        VCell::Ptr(d) => k == d,
        VCell::Continuation(c) => cont_kid(*c, k),
        VCell::Lambda(l) => lambda_kid(*l, k),
        VCell::Closure(l, e) => k == l || k == e,
        VCell::LexicalEnv(env) => seq_kid(env_view(*env), k),
        VCell::Vector(vec) => seq_kid(vector_view(*vec), k),
        VCell::EnvironmentPointer(p) => k == p,
        _ => false,
    }
}
impl Heap {
    pub open spec fn marked(&self, p: int) -> bool { self.state(p) == 2 }
    pub open spec fn in_range(&self, p: int) -> bool { 0 <= p < self.len() }
    /// what marking may change: states only, and only towards "used"
    pub open spec fn mark_frame(&self, old: Heap) -> bool {
        &&& self.cells() == old.cells() && self.table() == old.table() && self.free_cells() == old.free_cells() && self.chunk() == old.chunk()
        &&& self.gcmap().wf() && self.gcmap().cap() == old.gcmap().cap() && old.gcmap().cap() == old.len()
        &&& forall|p: int| 0 <= p < old.len() ==> (#[trigger] self.state(p)) == old.state(p) || self.state(p) == 2
    }
    /// every cell marked since `old` has all its in-range children marked, except children of `exnode` and the child `exkid`
    pub open spec fn closed_but(&self, old: Heap, exnode: int, exkid: int) -> bool {
        forall|p: int, k: int| 0 <= p < old.len() && self.marked(p) && !old.marked(p) && #[trigger] ckid(old.cells()[p], k) && 0 <= k < old.len()
            ==> #[trigger] self.marked(k) || p == exnode || k == exkid
    }
    pub open spec fn mark_ok(&self, old: Heap) -> bool { self.mark_frame(old) && self.closed_but(old, -1, -1) }
    pub open spec fn all_marked(&self, f: spec_fn(int) -> bool) -> bool { forall|k: int| f(k) && 0 <= k < self.len() ==> #[trigger] self.marked(k) }
}
/// marking the so-far unmarked node `n` (state s0 -> s1): its own children become the excused ones
pub proof fn lemma_mark_node(old: Heap, s0: Heap, s1: Heap, n: int)
    requires s0.mark_frame(old), s0.closed_but(old, -1, n), 0 <= n < old.len(),
        s1.gcmap().wf(), s1.gcmap().cap() == s0.gcmap().cap(), s1.marked(n),
        forall|j: int| 0 <= j < old.len() && j != n ==> s1.state(j) == s0.state(j),
        s1.cells() == s0.cells() && s1.table() == s0.table() && s1.free_cells() == s0.free_cells() && s1.chunk() == s0.chunk(),
    ensures s1.mark_frame(old), s1.closed_but(old, n, -1)
{
    assert forall|p: int| 0 <= p < old.len() implies (#[trigger] s1.state(p)) == old.state(p) || s1.state(p) == 2 by { assert(s0.state(p) == old.state(p) || s0.state(p) == 2); }
    assert forall|p: int, k: int| 0 <= p < old.len() && s1.marked(p) && !old.marked(p) && #[trigger] ckid(old.cells()[p], k) && 0 <= k < old.len()
        implies #[trigger] s1.marked(k) || p == n || k == -1 by {
        if p != n { assert(s0.marked(p)); assert(s0.marked(k) || k == n); }
    }
}
/// a nested marking call (s1 -> s2, itself satisfying the contract) preserves what has been established relative to `old`
pub proof fn lemma_mark_sub(old: Heap, s1: Heap, s2: Heap, ex: int)
    requires s1.mark_frame(old), s1.closed_but(old, ex, -1), s2.mark_ok(s1),
    ensures s2.mark_frame(old), s2.closed_but(old, ex, -1), forall|k: int| 0 <= k < old.len() && s1.marked(k) ==> s2.marked(k)
{
    assert forall|p: int| 0 <= p < old.len() implies (#[trigger] s2.state(p)) == old.state(p) || s2.state(p) == 2 by {
        assert(s2.state(p) == s1.state(p) || s2.state(p) == 2); assert(s1.state(p) == old.state(p) || s1.state(p) == 2);
    }
    assert forall|k: int| 0 <= k < old.len() && s1.marked(k) implies s2.marked(k) by { assert(s2.state(k) == s1.state(k) || s2.state(k) == 2); }
    assert forall|p: int, k: int| 0 <= p < old.len() && s2.marked(p) && !old.marked(p) && #[trigger] ckid(old.cells()[p], k) && 0 <= k < old.len()
        implies #[trigger] s2.marked(k) || p == ex || k == -1 by {
        assert(s2.state(k) == s1.state(k) || s2.state(k) == 2);
        if s1.marked(p) { assert(s1.marked(k) || p == ex); } else { assert(s2.closed_but(s1, -1, -1)); assert(ckid(s1.cells()[p], k)); }
    }
}
/// node `n` is finished once all its children are marked or are the next pending child
pub proof fn lemma_mark_done(old: Heap, s: Heap, n: int, next: int)
    requires s.mark_frame(old), s.closed_but(old, n, -1), 0 <= n < old.len(),
        forall|k: int| #[trigger] ckid(old.cells()[n], k) && 0 <= k < old.len() ==> s.marked(k) || k == next,
    ensures s.closed_but(old, -1, next)
{}
/// a finished traversal: the pending child is out of range or already marked
pub proof fn lemma_mark_finish(old: Heap, s: Heap, pending: int)
    requires s.mark_frame(old), s.closed_but(old, -1, pending), !(0 <= pending < old.len()) || s.marked(pending),
    ensures s.mark_ok(old)
{}
pub proof fn lemma_mark_trans(old: Heap, s1: Heap, s2: Heap)
    requires s1.mark_ok(old), s2.mark_ok(s1) ensures s2.mark_ok(old), forall|k: int| 0 <= k < old.len() && s1.marked(k) ==> s2.marked(k)
{ lemma_mark_sub(old, s1, s2, -1); }
pub proof fn lemma_mark_refl(s: Heap) requires s.gcmap().wf(), s.gcmap().cap() == s.len() ensures s.mark_ok(s) {}
'''

M = ['C03', 'C12']
MREQ = ['old(self).gcmap().wf()', 'old(self).gcmap().cap() == old(self).len()']
# a marking call keeps whatever has been established relative to any earlier state `o` (lets callers chain calls)
PRESERVES = 'forall|o: Heap, ex: int| (#[trigger] old(self).closed_but(o, ex, -1)) && old(self).mark_frame(o) ==> final(self).closed_but(o, ex, -1) && final(self).mark_frame(o)'
MONO = 'forall|k: int| 0 <= k < old(self).len() && old(self).marked(k) ==> #[trigger] final(self).marked(k)'
PRES_PROOF = '''proof {
    assert forall|o: Heap, ex: int| (#[trigger] old(self).closed_but(o, ex, -1)) && old(self).mark_frame(o) implies self.closed_but(o, ex, -1) && self.mark_frame(o) by {
        lemma_mark_sub(o, *old(self), *self, ex);
    }
    assert forall|k: int| 0 <= k < old(self).len() && old(self).marked(k) implies #[trigger] self.marked(k) by { assert(self.state(k) == old(self).state(k) || self.state(k) == 2); }
}'''

MARK_FNS = {
    # walks the saved stack through the opaque iterator of Stack::iter (its contract: unit stack), then the saved ip and ep
    'impl Heap::mark_continuation': {
        'props': M + ['C05', 'C06'], 'requires': MREQ,
        'attrs': '#[verifier::exec_allows_no_decreases_clause]',
        'ensures': [(M, 'final(self).mark_ok(*old(self))'), (M, PRESERVES), (M, MONO), (M + ['C05'], 'final(self).all_marked(|k: int| cont_kid(*cont, k))')],
        'body_start': 'proof { lemma_mark_refl(*old(self)); } let ghost rem = cont_stack(*cont).cells();',
        'loop_iter': {0: 'iter'},
        'loops': {0: '''invariant self.mark_ok(*old(self)),
                    iter.iter.obeys_prophetic_iter_laws(), iter.iter.decrease() is Some, iter.seq().len() == rem.len(),
                    forall|j: int| 0 <= j < rem.len() ==> *(#[trigger] iter.seq()[j]) == rem[j],
                    forall|j: int, k: int| 0 <= j < iter.index@ && #[trigger] vkid(rem[j], k) && 0 <= k < old(self).len() ==> self.marked(k),
                ensures
                    forall|j: int, k: int| 0 <= j < rem.len() && #[trigger] vkid(rem[j], k) && 0 <= k < old(self).len() ==> self.marked(k),'''},
        'loop_count': 1,
        'body_end': PRES_PROOF,
    },
    'impl Heap::mark_lambda': {
        'props': M + ['C06'], 'requires': MREQ,
        'attrs': '#[verifier::exec_allows_no_decreases_clause]',
        'ensures': [(M, 'final(self).mark_ok(*old(self))'), (M, PRESERVES), (M, MONO), (M, 'final(self).all_marked(|k: int| lambda_kid(*lambda, k))')],
        'body_start': 'proof { lemma_mark_refl(*old(self)); }',
        'loops': {
            0: '''invariant self.mark_ok(*old(self)),
                    forall|j: int, k: int| 0 <= j < iter.index@ && #[trigger] vkid(lambda.bc@[j], k) && 0 <= k < old(self).len() ==> self.marked(k),''',
            1: '''invariant self.mark_ok(*old(self)),
                    forall|j: int, k: int| 0 <= j < lambda.bc@.len() && #[trigger] vkid(lambda.bc@[j], k) && 0 <= k < old(self).len() ==> self.marked(k),
                    forall|j: int, k: int| 0 <= j < iter.index@ && #[trigger] vkid(lambda.args@[j], k) && 0 <= k < old(self).len() ==> self.marked(k),''',
            2: '''invariant self.mark_ok(*old(self)),
                    forall|j: int, k: int| 0 <= j < lambda.bc@.len() && #[trigger] vkid(lambda.bc@[j], k) && 0 <= k < old(self).len() ==> self.marked(k),
                    forall|j: int, k: int| 0 <= j < lambda.args@.len() && #[trigger] vkid(lambda.args@[j], k) && 0 <= k < old(self).len() ==> self.marked(k),
                    forall|j: int, k: int| 0 <= j < iter.index@ && #[trigger] vkid(envmap_view(lambda.envmap)[j].0, k) && 0 <= k < old(self).len() ==> self.marked(k),''',
        },
        'loop_count': 3,
        'loop_iter': {0: 'iter', 1: 'iter', 2: 'iter'},
        'body_end': PRES_PROOF,
    },
    'impl Heap::mark': {
        'props': M + ['C06'], 'requires': MREQ,
        'attrs': '#[verifier::exec_allows_no_decreases_clause]',
        'ensures': [
            # only states change, and only towards "used"; every cell marked by this call has all its children marked
            (M, 'final(self).mark_ok(*old(self))'),
            (M, PRESERVES), (M, MONO),
            (M, 'old(self).in_range(root as int) ==> final(self).marked(root as int)'),
        ],
        'body_start': 'let ghost mut node: int = 0; let ghost mut gv = VCell::Undefined; proof { lemma_mark_refl(*old(self)); }',
        'loops': {
            0: '''invariant
                self.mark_frame(*old(self)),
                self.closed_but(*old(self), -1, ptr as int),
                old(self).in_range(root as int) ==> (self.marked(root as int) || ptr == root),''',
            1: '''invariant
                self.mark_frame(*old(self)), self.closed_but(*old(self), node, -1), 0 <= node < old(self).len(),
                gv == old(self).cells()[node], gv matches VCell::LexicalEnv(e) && *e == *env, old(self).in_range(root as int) ==> self.marked(root as int),
                forall|j: int, k: int| 0 <= j < it && #[trigger] vkid(env_view(*env)[j], k) && 0 <= k < old(self).len() ==> self.marked(k),''',
            2: '''invariant
                self.mark_frame(*old(self)), self.closed_but(*old(self), node, -1), 0 <= node < old(self).len(),
                gv == old(self).cells()[node], gv matches VCell::Vector(e) && *e == *vector, old(self).in_range(root as int) ==> self.marked(root as int),
                forall|j: int, k: int| 0 <= j < idx && #[trigger] vkid(vector_view(*vector)[j], k) && 0 <= k < old(self).len() ==> self.marked(k),''',
        },
        'loop_count': 3,
        'inserts': [
            {'loop_start': 0, 'text': 'let ghost s0 = *self;'},
            {'anchor': 'return;', 'nth': 0, 'where': 'before', 'text': 'proof { lemma_mark_finish(*old(self), *self, ptr as int); } ' + PRES_PROOF},
            {'anchor': 'return;', 'nth': 1, 'where': 'before', 'text': 'proof { lemma_mark_finish(*old(self), *self, ptr as int); } ' + PRES_PROOF},
            {'anchor': 'self.heap_map.mark(ptr);', 'nth': 0, 'where': 'after',
             'text': 'proof { node = ptr as int; gv = vcell; lemma_mark_node(*old(self), s0, *self, node); }'},
            # end of one iteration: the node is finished (its only possibly unmarked child is the new `ptr`)
            {'loop_end': 0, 'text': 'proof { lemma_mark_done(*old(self), *self, node, ptr as int); }'},
        ],
    },
    'impl Heap::mark_vcell': {
        'props': M + ['C06'], 'requires': MREQ,
        'attrs': '#[verifier::exec_allows_no_decreases_clause]',
        'ensures': [
            (M, 'final(self).mark_ok(*old(self))'),
            (M, PRESERVES), (M, MONO),
            (M, 'final(self).all_marked(|k: int| vkid(*vcell, k))'),
        ],
        'body_start': 'proof { axiom_vkids(*vcell); lemma_mark_refl(*old(self)); }',
        'loops': {0: '''invariant
                    self.mark_ok(*old(self)),
                    forall|j: int, k: int| 0 <= j < idx && #[trigger] vkid(vector_view(**vector)[j], k) && 0 <= k < old(self).len() ==> self.marked(k),'''},
        'loop_count': 1,
        'body_end': PRES_PROOF,
    },
}
