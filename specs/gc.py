"""Unit `gc`: marwood/src/vm/gc.rs — the 2-bit-per-cell state map (C03, C12)."""

PRELUDE = r'''
pub open spec fn cell_bits(byte: u8, k: usize) -> u8 { (byte >> ((k * 2) as u8)) & 3u8 }
pub open spec fn bits_of(s: State) -> u8 { match s { State::Free => 0u8, State::Allocated => 1u8, State::Used => 2u8 } }
impl Map {
    /// representation invariant: four cells per byte, and no cell holds the unused bit pattern 0b11
    pub closed spec fn wf(&self) -> bool {
        &&& self.size % 4 == 0
        &&& self.map@.len() == self.size / 4
        &&& forall|i: int| 0 <= i < self.size ==> self.state_bits(i) <= 2
    }
    pub closed spec fn cap(&self) -> usize { self.size }
    pub closed spec fn state_bits(&self, i: int) -> u8 { cell_bits(self.map@[i / 4], (i % 4) as usize) }
    /// 0 free, 1 allocated, 2 used (marked in the current collection)
    pub open spec fn is_free(&self, i: int) -> bool { self.state_bits(i) == 0 }
    pub open spec fn is_allocated(&self, i: int) -> bool { self.state_bits(i) == 1 }
    pub open spec fn is_used(&self, i: int) -> bool { self.state_bits(i) == 2 }
}
pub proof fn lemma_set_bits(b: u8, k: usize, s: u8)
    requires k < 4, s <= 2,
    ensures
        cell_bits((b & !(3u8 << ((k * 2) as u8))) | (s << ((k * 2) as u8)), k) == s,
        forall|j: usize| j < 4 && j != k ==> cell_bits((b & !(3u8 << ((k * 2) as u8))) | (s << ((k * 2) as u8)), j) == cell_bits(b, j),
{
    assert(forall|b: u8, s: u8, k: u8, j: u8| s <= 2 && k < 4 && j < 4 ==>
        (#[trigger] (((b & !(3u8 << (k * 2))) | (s << (k * 2))) >> (j * 2)) & 3u8) == (if j == k { s } else { (b >> (j * 2)) & 3u8 })) by (bit_vector);
}
pub proof fn lemma_zero_bits(k: usize) requires k < 4 ensures cell_bits(0u8, k) == 0
{ assert(forall|k: u8| k < 4 ==> #[trigger] ((0u8 >> (k * 2)) & 3u8) == 0) by (bit_vector); }
'''

G = ['C03', 'C12']
UNITS = [{
    'name': 'gc',
    'file': 'src/vm/gc.rs',
    'wrap': ['struct Map', 'enum State'],
    'wraps_types': ['Map', 'State'],
    'prelude': PRELUDE,
    'fns': {
        # MIRROR clause: bits_of is the specification's copy of the state encoding.  If it fails, the encoding in the code has changed and the
        # copy is stale: nothing about the collector can be decided until specs/gc.py is updated (the run is undecided, never a violation)
        'impl State::bits': {'props': G, 'ensures': [(G + ['MIRROR'], 'r == bits_of(*self)')]},
        # Verus ICE on `&u8 >> usize` inside a closure: contract assumed here, discharged by the Kani complete harness gc_map_get
        'impl Map::get': {'props': G, 'trusted': True, 'requires': ['self.wf()'],
                          'ensures': [(G, 'index < self.cap() ==> (r matches Some(s) && bits_of(s) == self.state_bits(index as int))'),
                                      (G, 'index >= self.cap() ==> r is None')]},
        'impl Map::new': {'props': G, 'pre_rewrites': ['assert_eq_unreached'], 'requires': ['size % 4 == 0'], 'body_start': 'proof { lemma_zero_bits(0); lemma_zero_bits(1); lemma_zero_bits(2); lemma_zero_bits(3); }',
                          'ensures': [(G, 'r.wf() && r.cap() == size && forall|i: int| 0 <= i < size ==> r.is_free(i)')]},
        'impl Map::resize': {'props': G, 'pre_rewrites': ['assert_eq_unreached'],
                             # the hint only MENTIONS the terms the solver needs (no inner assert that could fail in place of a postcondition)
                             'body_end': 'proof { assert forall|i: int| 0 <= i < self.size implies self.state_bits(i) <= 2 by { let a = self.map@[i / 4]; if i < old(self).size { let b = old(self).map@[i / 4]; let c = old(self).state_bits(i); } } }', 'body_start': 'proof { lemma_zero_bits(0); lemma_zero_bits(1); lemma_zero_bits(2); lemma_zero_bits(3); }', 'requires': ['old(self).wf()', 'size % 4 == 0', 'size >= old(self).cap()'],
                             'ensures': [(G, 'final(self).wf() && final(self).cap() == size'),
                                         (G, 'forall|i: int| 0 <= i < old(self).cap() ==> final(self).state_bits(i) == old(self).state_bits(i)'),
                                         (G, 'forall|i: int| old(self).cap() <= i < size ==> final(self).is_free(i)')]},
        'impl Map::set': {
            'props': G + ['C06'],
            'requires': ['old(self).wf()', 'index < old(self).cap()'],
            'ensures': [
                (G, 'final(self).wf() && final(self).cap() == old(self).cap()'),
                (G, 'final(self).state_bits(index as int) == bits_of(state)'),
                (G, 'forall|j: int| 0 <= j < old(self).cap() && j != index ==> final(self).state_bits(j) == old(self).state_bits(j)'),
            ],
            'body_end': '''proof {
                let k: usize = index % 4;
                let ob: u8 = old(self).map@[(index / 4) as int];
                lemma_set_bits(ob, k, bits_of(state));
                assert forall|j: int| 0 <= j < self.size implies self.state_bits(j) <= 2 by {
                    if j / 4 == index / 4 { if j % 4 != index % 4 { assert(self.state_bits(j) == old(self).state_bits(j)); } }
                    else { assert(self.state_bits(j) == old(self).state_bits(j)); }
                }
            }''',
        },
        'impl Map::mark': {
            'props': G + ['C06'],
            'requires': ['old(self).wf()', 'index < old(self).cap()'],
            'ensures': [
                (G, 'final(self).wf() && final(self).cap() == old(self).cap()'),
                (G, 'final(self).is_used(index as int)'),
                (G, 'forall|j: int| 0 <= j < old(self).cap() && j != index ==> final(self).state_bits(j) == old(self).state_bits(j)'),
            ],
        },
        'impl Map::is_marked': {
            'props': G, 'requires': ['self.wf()'],
            'ensures': [(G, 'r == (index < self.cap() && self.is_used(index as int))')],
        },
        'impl Map::capacity': {'props': G, 'ensures': [(G, 'r == self.cap()')]},
    },
}]
