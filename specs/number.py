"""Unit `number`: marwood/src/number.rs — the numeric tower (C08, C09, C06 on these functions)."""


def op_axiom(name, tr, meth, lhs, rhs, req, out):
    """trusted axiom giving an operator on external value types its meaning through vstd's
    `XSpec::{x_req, x_spec}` (Verus checks `a op b` against these after peeling references)"""
    T = '<%s as %sSpec<%s>>' % (lhs, tr, rhs)
    return '''
#[verifier::external_body]
pub broadcast proof fn %(name)s(a: %(lhs)s, b: %(rhs)s)
    ensures #![trigger %(T)s::%(m)s_req(a, b)]
            #![trigger %(T)s::%(m)s_spec(a, b)]
            (%(req)s) ==> %(T)s::%(m)s_req(a, b),
            (%(req)s) ==> (%(out)s),
{}''' % {'name': name, 'lhs': lhs, 'rhs': rhs, 'T': T, 'm': meth, 'req': req,
         'out': out.replace('RES', '%s::%s_spec(a, b)' % (T, meth))}


AX = []
OBEYS = []


def ax(name, tr, lhs, rhs, req, out):
    meth = tr.lower()
    AX.append((name, op_axiom(name, tr, meth, lhs, rhs, req, out)))
    OBEYS.append('<%s as %sSpec<%s>>::obeys_%s_spec()' % (lhs, tr, rhs, meth))


def bv(t, x):
    return 'big_val(%s)' % x if t == 'BigInt' else '(%s as int)' % x


for (l, r) in [('BigInt', 'i64'), ('BigInt', 'i32'), ('BigInt', 'BigInt')]:
    ax('axiom_add_%s_%s' % (l, r), 'Add', l, r, 'true', 'big_val(RES) == %s + %s' % (bv(l, 'a'), bv(r, 'b')))
    ax('axiom_mul_%s_%s' % (l, r), 'Mul', l, r, 'true', 'big_val(RES) == %s * %s' % (bv(l, 'a'), bv(r, 'b')))
for (l, r) in [('BigInt', 'i64'), ('BigInt', 'i32'), ('BigInt', 'BigInt'), ('i64', 'BigInt')]:
    ax('axiom_sub_%s_%s' % (l, r), 'Sub', l, r, 'true', 'big_val(RES) == %s - %s' % (bv(l, 'a'), bv(r, 'b')))
for (l, r) in [('BigInt', 'i64'), ('BigInt', 'BigInt')]:
    ax('axiom_div_%s_%s' % (l, r), 'Div', l, r, '%s != 0' % bv(r, 'b'),
       'big_val(RES) == tdiv(%s, %s)' % (bv(l, 'a'), bv(r, 'b')))
    ax('axiom_rem_%s_%s' % (l, r), 'Rem', l, r, '%s != 0' % bv(r, 'b'),
       'big_val(RES) == trem(%s, %s)' % (bv(l, 'a'), bv(r, 'b')))
F64_OPS = ''
for tr in ['Add', 'Sub', 'Mul', 'Div', 'Rem']:
    m = tr.lower()
    F64_OPS += '''
#[verifier::external_body]
pub broadcast proof fn axiom_f64_%(m)s(a: f64, b: f64)
    ensures #[trigger] <f64 as %(tr)sSpec<f64>>::%(m)s_req(a, b) {}''' % {'m': m, 'tr': tr}
    AX.append(('axiom_f64_' + m, ''))

PRELUDE = r'''
pub mod numspec {
use vstd::prelude::*;
use num::bigint::BigInt;
use num::rational::Ratio;
use num::{Rational32, Rational64};
use vstd::std_specs::ops::{AddSpec, SubSpec, MulSpec, DivSpec, RemSpec};
use vstd::std_specs::cmp::{PartialEqSpec, PartialOrdSpec};
use core::cmp::Ordering;

// ---------------------------------------------------------------- external types and their views
#[verifier::external_type_specification]
#[verifier::external_body]
pub struct ExBigInt(BigInt);
#[verifier::external_type_specification]
#[verifier::external_body]
#[verifier::reject_recursive_types(T)]
pub struct ExRatio<T>(Ratio<T>);

/// mathematical value of a big integer
pub uninterp spec fn big_val(b: BigInt) -> int;
/// numerator / denominator of a `Ratio<T>` as stored
pub uninterp spec fn ratio_num<T>(r: Ratio<T>) -> int;
pub uninterp spec fn ratio_den<T>(r: Ratio<T>) -> int;
/// value of a primitive integer carried in a generic position, and the least value of its type
pub uninterp spec fn int_of<T>(x: T) -> int;
pub uninterp spec fn tmin<T>() -> int;
pub uninterp spec fn tmax<T>() -> int;
pub open spec fn r32_num(r: Rational32) -> int { ratio_num::<i32>(r) }
pub open spec fn r32_den(r: Rational32) -> int { ratio_den::<i32>(r) }

pub open spec fn fits_i32(x: int) -> bool { i32::MIN <= x <= i32::MAX }
pub open spec fn fits_i64(x: int) -> bool { i64::MIN <= x <= i64::MAX }
/// a/b == c/d (b, d != 0)
pub open spec fn q_eq(a: int, b: int, c: int, d: int) -> bool { a * d == c * b }
/// order of a/b against c/d for b, d > 0
pub open spec fn q_cmp(a: int, b: int, c: int, d: int) -> Ordering {
    if a * d < c * b { Ordering::Less } else if a * d == c * b { Ordering::Equal } else { Ordering::Greater }
}
/// truncating (round toward zero) division and its remainder; floor modulo
pub open spec fn tdiv(a: int, b: int) -> int {
    if b == 0 { 0 } else if a >= 0 && b > 0 { a / b } else if a < 0 && b > 0 { -((-a) / b) }
    else if a >= 0 && b < 0 { -(a / (-b)) } else { (-a) / (-b) }
}
pub open spec fn trem(a: int, b: int) -> int { a - b * tdiv(a, b) }
pub open spec fn fmod(a: int, b: int) -> int {
    if b == 0 { 0 } else if b > 0 { a % b } else { -((-a) % (-b)) }
}
/// floor(a/b), ceil(a/b) for b > 0
pub open spec fn fdiv(a: int, b: int) -> int { a / b }
pub open spec fn cdiv(a: int, b: int) -> int { -((-a) / b) }
pub open spec fn iabs(a: int) -> int { if a < 0 { -a } else { a } }
pub open spec fn ipow(b: int, e: nat) -> int decreases e { if e == 0 { 1 } else { b * ipow(b, (e - 1) as nat) } }

#[verifier::external_body]
pub broadcast proof fn axiom_int_of_i32(x: i32) ensures #[trigger] int_of::<i32>(x) == x as int {}
#[verifier::external_body]
pub broadcast proof fn axiom_int_of_i64(x: i64) ensures #[trigger] int_of::<i64>(x) == x as int {}
#[verifier::external_body]
#[verifier::allow(broadcast_without_trigger)]
pub broadcast proof fn axiom_tmin()
    ensures tmin::<i32>() == i32::MIN as int, tmin::<i64>() == i64::MIN as int,
            tmax::<i32>() == i32::MAX as int, tmax::<i64>() == i64::MAX as int {}
/// representation invariant of `Ratio<i32>` / `Ratio<i64>` as produced by every constructor
/// marwood uses (`new`, `from_integer`, `From<(T,T)>`, arithmetic): positive denominator, in range
#[verifier::external_body]
pub broadcast proof fn axiom_r32_wf(r: Rational32)
    ensures #![trigger ratio_den::<i32>(r)] #![trigger ratio_num::<i32>(r)]
      ratio_den::<i32>(r) > 0, fits_i32(ratio_num::<i32>(r)), fits_i32(ratio_den::<i32>(r)),
      ratio_num::<i32>(r) == 0 ==> ratio_den::<i32>(r) == 1 {}
#[verifier::external_body]
pub broadcast proof fn axiom_r64_wf(r: Rational64)
    ensures #![trigger ratio_den::<i64>(r)] #![trigger ratio_num::<i64>(r)]
      ratio_den::<i64>(r) > 0, fits_i64(ratio_num::<i64>(r)), fits_i64(ratio_den::<i64>(r)) {}

/// |x * d| >= |x| for d >= 1  (lets the solver place an out-of-i32 integer against n/d with |n| < 2^31)
pub broadcast proof fn lemma_scale_ge(x: int, d: int)
    requires d >= 1
    ensures x >= 0 ==> #[trigger] (x * d) >= x, x <= 0 ==> x * d <= x
{
    assert(x >= 0 ==> x * d >= x) by (nonlinear_arith) requires d >= 1;
    assert(x <= 0 ==> x * d <= x) by (nonlinear_arith) requires d >= 1;
}
/// 1^e == 1 and d^e > 0 for d > 0
pub broadcast proof fn lemma_ipow_one(e: nat) ensures #[trigger] ipow(1, e) == 1 decreases e
{ if e > 0 { lemma_ipow_one((e - 1) as nat); } }
pub broadcast proof fn lemma_ipow_pos(d: int, e: nat) requires d > 0 ensures #[trigger] ipow(d, e) > 0 decreases e
{ if e > 0 { lemma_ipow_pos(d, (e - 1) as nat); assert(d * ipow(d, (e - 1) as nat) > 0) by (nonlinear_arith) requires d > 0, ipow(d, (e - 1) as nat) > 0; } }
/// value of `x.into()` for the `Into<BigInt>` sources marwood uses
pub uninterp spec fn big_into<T>(x: T) -> int;
#[verifier::external_body]
pub broadcast proof fn axiom_big_into_big(b: BigInt) ensures #[trigger] big_into::<BigInt>(b) == big_val(b) {}

// ---------------------------------------------------------------- floor-modulo from two truncating remainders (proved)
proof fn lemma_trem_pos(a: int, b: int) requires a >= 0, b > 0 ensures trem(a, b) == a % b, 0 <= a % b < b {
    vstd::arithmetic::div_mod::lemma_fundamental_div_mod(a, b);
    vstd::arithmetic::div_mod::lemma_mod_bound(a, b);
}
proof fn lemma_trem_small(x: int, b: int) requires 0 <= x < b ensures trem(x, b) == x {
    vstd::arithmetic::div_mod::lemma_basic_div(x, b);
    assert(x / b == 0);
    assert(b * (x / b) == 0) by (nonlinear_arith) requires x / b == 0;
}
proof fn lemma_trem_onemore(x: int, b: int) requires b <= x < 2 * b, b > 0 ensures trem(x, b) == x - b {
    vstd::arithmetic::div_mod::lemma_fundamental_div_mod(x, b);
    vstd::arithmetic::div_mod::lemma_mod_bound(x, b);
    assert(x / b == 1) by (nonlinear_arith) requires x == b * (x / b) + x % b, 0 <= x % b < b, b <= x < 2 * b, b > 0;
}
proof fn lemma_fmod_pos(a: int, b: int) requires b > 0 ensures trem(trem(a, b) + b, b) == a % b {
    vstd::arithmetic::div_mod::lemma_mod_bound(a, b);
    if a >= 0 {
        lemma_trem_pos(a, b);
        lemma_trem_onemore(a % b + b, b);
    } else {
        let m = -a;
        lemma_trem_pos(m, b);
        assert(trem(a, b) == -(m % b)) by {
            vstd::arithmetic::div_mod::lemma_fundamental_div_mod(m, b);
            assert(b * (-(m / b)) == -(b * (m / b))) by (nonlinear_arith);
        }
        if m % b == 0 {
            lemma_trem_onemore(b, b);
            vstd::arithmetic::div_mod::lemma_fundamental_div_mod(m, b);
            assert(a == b * (-(m / b))) by (nonlinear_arith) requires m == b * (m / b) + m % b, m % b == 0, a == -m;
            vstd::arithmetic::div_mod::lemma_mod_multiples_basic(-(m / b), b);
            assert((b * (-(m / b))) % b == 0) by { vstd::arithmetic::mul::lemma_mul_is_commutative(b, -(m / b)); }
        } else {
            lemma_trem_small(b - m % b, b);
            vstd::arithmetic::div_mod::lemma_fundamental_div_mod(m, b);
            let q = -(m / b) - 1;
            assert(a == q * b + (b - m % b)) by (nonlinear_arith) requires m == b * (m / b) + m % b, a == -m, q == -(m / b) - 1;
            vstd::arithmetic::div_mod::lemma_fundamental_div_mod_converse(a, b, q, b - m % b);
        }
    }
}
proof fn lemma_trem_neg(a: int, b: int) requires b < 0 ensures trem(a, b) == -trem(-a, -b) {
    assert(tdiv(a, b) == tdiv(-a, -b)) by {
        if a == 0 { vstd::arithmetic::div_mod::lemma_basic_div(0, -b); }
    }
    assert(a - b * tdiv(a, b) == -((-a) - (-b) * tdiv(a, b))) by (nonlinear_arith);
}
/// `((a rem b) + b) rem b` is the floor modulo
pub broadcast proof fn lemma_fmod(a: int, b: int) requires b != 0 ensures #[trigger] trem(trem(a, b) + b, b) == fmod(a, b) {
    if b > 0 { lemma_fmod_pos(a, b); } else {
        lemma_trem_neg(a, b);
        lemma_trem_neg(trem(a, b) + b, b);
        lemma_fmod_pos(-a, -b);
    }
}
/// floor and ceiling of n/d (d > 0) from the truncating quotient and remainder
pub broadcast proof fn lemma_floor_ceil_from_trunc(n: int, d: int)
    requires d > 0
    ensures #![trigger tdiv(n, d)]
        fdiv(n, d) == (if trem(n, d) < 0 { tdiv(n, d) - 1 } else { tdiv(n, d) }),
        cdiv(n, d) == (if trem(n, d) > 0 { tdiv(n, d) + 1 } else { tdiv(n, d) }),
{
    if n >= 0 {
        lemma_trem_pos(n, d);
        // ceil: -((-n) / d)
        if n % d == 0 {
            vstd::arithmetic::div_mod::lemma_fundamental_div_mod(n, d);
            assert(-n == (-(n / d)) * d + 0) by (nonlinear_arith) requires n == d * (n / d) + n % d, n % d == 0;
            vstd::arithmetic::div_mod::lemma_fundamental_div_mod_converse(-n, d, -(n / d), 0);
        } else {
            vstd::arithmetic::div_mod::lemma_fundamental_div_mod(n, d);
            assert(-n == (-(n / d) - 1) * d + (d - n % d)) by (nonlinear_arith) requires n == d * (n / d) + n % d;
            vstd::arithmetic::div_mod::lemma_fundamental_div_mod_converse(-n, d, -(n / d) - 1, d - n % d);
        }
    } else {
        let m = -n;
        lemma_trem_pos(m, d);
        assert(trem(n, d) == -(m % d)) by {
            vstd::arithmetic::div_mod::lemma_fundamental_div_mod(m, d);
            assert(d * (-(m / d)) == -(d * (m / d))) by (nonlinear_arith);
        }
        vstd::arithmetic::div_mod::lemma_fundamental_div_mod(m, d);
        if m % d == 0 {
            assert(n == (-(m / d)) * d + 0) by (nonlinear_arith) requires m == d * (m / d) + m % d, m % d == 0, n == -m;
            vstd::arithmetic::div_mod::lemma_fundamental_div_mod_converse(n, d, -(m / d), 0);
        } else {
            assert(n == (-(m / d) - 1) * d + (d - m % d)) by (nonlinear_arith) requires m == d * (m / d) + m % d, n == -m;
            vstd::arithmetic::div_mod::lemma_fundamental_div_mod_converse(n, d, -(m / d) - 1, d - m % d);
        }
    }
}
// ---------------------------------------------------------------- primitive signed / and % (Rust reference: truncating)
#[verifier::external_body]
pub broadcast proof fn axiom_i64_div(a: i64, b: i64)
    ensures #![trigger <i64 as DivSpec<i64>>::div_spec(a, b)]
        b != 0 && !(a == i64::MIN && b == -1) ==> <i64 as DivSpec<i64>>::div_spec(a, b) == tdiv(a as int, b as int) {}
#[verifier::external_body]
pub broadcast proof fn axiom_i64_rem(a: i64, b: i64)
    ensures #![trigger <i64 as RemSpec<i64>>::rem_spec(a, b)]
        b != 0 && !(a == i64::MIN && b == -1) ==> <i64 as RemSpec<i64>>::rem_spec(a, b) == trem(a as int, b as int) {}

// ---------------------------------------------------------------- operators on BigInt / f64 (trusted axioms)
@@OP_AXIOMS@@
#[verifier::external_body]
#[verifier::allow(broadcast_without_trigger)]
pub broadcast proof fn axiom_obeys()
    ensures
@@OBEYS@@
{}

// ---------------------------------------------------------------- comparison of BigInt / Ratio values
#[verifier::external_body]
pub broadcast proof fn axiom_big_eq(a: BigInt, b: BigInt)
    ensures #[trigger] <BigInt as PartialEqSpec<BigInt>>::eq_spec(&a, &b) == (big_val(a) == big_val(b)) {}
#[verifier::external_body]
pub broadcast proof fn axiom_big_cmp(a: BigInt, b: BigInt)
    ensures #[trigger] <BigInt as PartialOrdSpec<BigInt>>::partial_cmp_spec(&a, &b) == Some(q_cmp(big_val(a), 1, big_val(b), 1)) {}
#[verifier::external_body]
pub broadcast proof fn axiom_r32_eq(a: Rational32, b: Rational32)
    ensures #[trigger] <Rational32 as PartialEqSpec<Rational32>>::eq_spec(&a, &b)
        == q_eq(ratio_num(a), ratio_den(a), ratio_num(b), ratio_den(b)) {}
#[verifier::external_body]
pub broadcast proof fn axiom_r32_cmp(a: Rational32, b: Rational32)
    ensures #[trigger] <Rational32 as PartialOrdSpec<Rational32>>::partial_cmp_spec(&a, &b)
        == Some(q_cmp(ratio_num(a), ratio_den(a), ratio_num(b), ratio_den(b))) {}
// the same comparisons reached through `&T == &T` and `Rc<T> == Rc<T>` (std forwards both to T's impl)
#[verifier::external_body]
pub broadcast proof fn axiom_r32_ref_eq(a: &Rational32, b: &Rational32)
    ensures #[trigger] <&Rational32 as PartialEqSpec<&Rational32>>::eq_spec(&a, &b)
        == q_eq(ratio_num(*a), ratio_den(*a), ratio_num(*b), ratio_den(*b)) {}
#[verifier::external_body]
pub broadcast proof fn axiom_rc_big_eq(a: std::rc::Rc<BigInt>, b: std::rc::Rc<BigInt>)
    ensures #[trigger] <std::rc::Rc<BigInt> as PartialEqSpec<std::rc::Rc<BigInt>>>::eq_spec(&a, &b) == (big_val(*a) == big_val(*b)) {}
#[verifier::external_body]
pub broadcast proof fn axiom_rc_big_ref_eq(a: &std::rc::Rc<BigInt>, b: &std::rc::Rc<BigInt>)
    ensures #[trigger] <&std::rc::Rc<BigInt> as PartialEqSpec<&std::rc::Rc<BigInt>>>::eq_spec(&a, &b) == (big_val(**a) == big_val(**b)) {}
#[verifier::external_body]
#[verifier::allow(broadcast_without_trigger)]
pub broadcast proof fn axiom_cmp_obeys()
    ensures <BigInt as PartialEqSpec<BigInt>>::obeys_eq_spec(),
            <&Rational32 as PartialEqSpec<&Rational32>>::obeys_eq_spec(),
            <std::rc::Rc<BigInt> as PartialEqSpec<std::rc::Rc<BigInt>>>::obeys_eq_spec(),
            <&std::rc::Rc<BigInt> as PartialEqSpec<&std::rc::Rc<BigInt>>>::obeys_eq_spec(),
            <BigInt as PartialOrdSpec<BigInt>>::obeys_partial_cmp_spec(),
            <Rational32 as PartialEqSpec<Rational32>>::obeys_eq_spec(),
            <Rational32 as PartialOrdSpec<Rational32>>::obeys_partial_cmp_spec(),
{}

// ---------------------------------------------------------------- num::ToPrimitive (provided methods => trait-level spec)
/// integer value a `ToPrimitive` source converts from (truncated toward zero for ratios)
pub uninterp spec fn prim_int<T: ?Sized>(x: &T) -> int;
/// `to_f64` never fails for this source type
pub uninterp spec fn prim_f64_total<T: ?Sized>() -> bool;
#[verifier::external_trait_specification]
pub trait ExToPrimitive {
    type ExternalTraitSpecificationFor: num::ToPrimitive;
    fn to_i64(&self) -> (r: Option<i64>)
        ensures r is Some <==> i64::MIN <= prim_int(self) <= i64::MAX, r matches Some(v) ==> v == prim_int(self);
    fn to_u64(&self) -> (r: Option<u64>)
        ensures r is Some <==> 0 <= prim_int(self) <= u64::MAX, r matches Some(v) ==> v == prim_int(self);
    fn to_i32(&self) -> (r: Option<i32>)
        ensures r is Some <==> i32::MIN <= prim_int(self) <= i32::MAX, r matches Some(v) ==> v == prim_int(self);
    fn to_u32(&self) -> (r: Option<u32>)
        ensures r is Some <==> 0 <= prim_int(self) <= u32::MAX, r matches Some(v) ==> v == prim_int(self);
    fn to_usize(&self) -> (r: Option<usize>)
        ensures r is Some <==> 0 <= prim_int(self) <= usize::MAX, r matches Some(v) ==> v == prim_int(self);
    fn to_i128(&self) -> (r: Option<i128>);
    fn to_f64(&self) -> (r: Option<f64>)
        ensures prim_f64_total::<Self>() ==> r is Some;
}
#[verifier::external_body]
pub broadcast proof fn axiom_prim_int_big(b: &BigInt) ensures #[trigger] prim_int::<BigInt>(b) == big_val(*b) {}
#[verifier::external_body]
pub broadcast proof fn axiom_prim_int_i64(b: &i64) ensures #[trigger] prim_int::<i64>(b) == *b {}
#[verifier::external_body]
pub broadcast proof fn axiom_prim_int_u32(b: &u32) ensures #[trigger] prim_int::<u32>(b) == *b {}
#[verifier::external_body]
pub broadcast proof fn axiom_prim_int_r32(b: &Rational32)
    ensures #[trigger] prim_int::<Rational32>(b) == tdiv(ratio_num(*b), ratio_den(*b)) {}
#[verifier::external_body]
#[verifier::allow(broadcast_without_trigger)]
pub broadcast proof fn axiom_prim_f64_total()
    ensures prim_f64_total::<BigInt>(), prim_f64_total::<i64>(), prim_f64_total::<Rational32>() {}

/// num::CheckedDiv: trait-level contract so that the implementation for Ratio can carry a PRECONDITION
/// (`assume_specification` on a trait method may not have one).
pub uninterp spec fn cdiv_req<T>(a: &T, b: &T) -> bool;
pub uninterp spec fn cdiv_ens<T>(a: &T, b: &T, r: Option<T>) -> bool;
#[verifier::external_trait_specification]
pub trait ExCheckedDiv: Sized + core::ops::Div<Self, Output = Self> {
    type ExternalTraitSpecificationFor: num::CheckedDiv;
    fn checked_div(&self, v: &Self) -> (r: Option<Self>)
        requires cdiv_req(self, v)
        ensures cdiv_ens(self, v, r);
}
/// i64: total; None exactly for a zero divisor and MIN / -1
#[verifier::external_body]
pub broadcast proof fn axiom_cdiv_i64(a: &i64, b: &i64, r: Option<i64>)
    ensures #![trigger cdiv_ens::<i64>(a, b, r)]
        cdiv_req::<i64>(a, b),
        cdiv_ens::<i64>(a, b, r) ==> (r matches Some(v) ==> *b != 0 && v == tdiv(*a as int, *b as int)) && (r is None <==> *b == 0 || (*a == i64::MIN && *b == -1)),
{}
#[verifier::external_body]
pub broadcast proof fn axiom_cdiv_i64_req(a: &i64, b: &i64) ensures #[trigger] cdiv_req::<i64>(a, b) {}
/// Ratio<i32> (num-rational 0.4.1): a zero divisor yields None; otherwise it takes gcd(numer, numer) when the denominators differ,
/// and num-integer's gcd PANICS (|i32::MIN| overflows) for gcd(0, i32::MIN): dividing a zero by a ratio whose numerator is i32::MIN
#[verifier::external_body]
pub broadcast proof fn axiom_cdiv_r32_req(a: &Rational32, b: &Rational32)
    ensures #[trigger] cdiv_req::<Rational32>(a, b) == !(ratio_num(*a) == 0 && ratio_num(*b) == i32::MIN as int && ratio_den(*a) != ratio_den(*b)) {}
#[verifier::external_body]
pub broadcast proof fn axiom_cdiv_r32(a: &Rational32, b: &Rational32, r: Option<Rational32>)
    ensures #[trigger] cdiv_ens::<Rational32>(a, b, r) ==>
        (r matches Some(v) ==> ratio_num(*b) != 0 && ratio_den(v) > 0 && q_eq(ratio_num(v), ratio_den(v), ratio_num(*a) * ratio_den(*b), ratio_den(*a) * ratio_num(*b)))
        && (r is None <==> ratio_num(*b) == 0 || ratio_div_none::<i32>(ratio_num(*a), ratio_den(*a), ratio_num(*b), ratio_den(*b))),
{}
pub broadcast group group_num {
    axiom_cdiv_i64, axiom_cdiv_i64_req, axiom_cdiv_r32_req, axiom_cdiv_r32,
    axiom_int_of_i32, axiom_int_of_i64, axiom_tmin, axiom_r32_wf, axiom_r64_wf,
    axiom_i64_div, axiom_i64_rem,
    axiom_obeys, @@AX_NAMES@@,
    axiom_big_eq, axiom_big_cmp, axiom_r32_eq, axiom_r32_cmp, axiom_cmp_obeys, axiom_r32_ref_eq, axiom_rc_big_eq, axiom_rc_big_ref_eq,
    axiom_prim_int_big, axiom_prim_int_i64, axiom_prim_int_u32, axiom_prim_int_r32, axiom_prim_f64_total,
    vstd::arithmetic::mul::lemma_mul_is_commutative, lemma_scale_ge, lemma_ipow_one, lemma_ipow_pos, axiom_big_into_big, lemma_fmod, lemma_floor_ceil_from_trunc,
}

// ---------------------------------------------------------------- assumed specs of `num` / `core` functions
pub assume_specification [<i64 as num::CheckedAdd>::checked_add] (a: &i64, b: &i64) -> (r: Option<i64>)
    ensures (r matches Some(v) ==> v == *a + *b), (r is None <==> !fits_i64(*a + *b));
pub assume_specification [<i64 as num::CheckedSub>::checked_sub] (a: &i64, b: &i64) -> (r: Option<i64>)
    ensures (r matches Some(v) ==> v == *a - *b), (r is None <==> !fits_i64(*a - *b));
pub assume_specification [<i64 as num::CheckedMul>::checked_mul] (a: &i64, b: &i64) -> (r: Option<i64>)
    ensures (r matches Some(v) ==> v == *a * *b), (r is None <==> !fits_i64(*a * *b));
/// (not used by the code today; declared so that a change introducing them stays decidable)
pub assume_specification [i64::wrapping_div] (a: i64, b: i64) -> (r: i64)
    requires b != 0 ensures r == (if a == i64::MIN && b == -1 { i64::MIN as int } else { tdiv(a as int, b as int) });
pub assume_specification [i64::wrapping_neg] (a: i64) -> (r: i64) ensures r == (if a == i64::MIN { i64::MIN as int } else { -(a as int) });
pub assume_specification [i64::wrapping_rem] (a: i64, b: i64) -> (r: i64)
    requires b != 0,
    ensures r == trem(a as int, b as int);
pub assume_specification [i32::checked_abs] (a: i32) -> (r: Option<i32>)
    ensures (r matches Some(v) ==> v == iabs(a as int)), (r is None <==> a == i32::MIN);
pub assume_specification [i32::checked_pow] (a: i32, e: u32) -> (r: Option<i32>)
    ensures (r matches Some(v) ==> v == ipow(a as int, e as nat)), (r is None <==> !fits_i32(ipow(a as int, e as nat)));
pub assume_specification [f64::abs] (a: f64) -> f64;
pub assume_specification [i64::checked_pow] (a: i64, e: u32) -> (r: Option<i64>)
    ensures (r matches Some(v) ==> v == ipow(a as int, e as nat)), (r is None <==> !fits_i64(ipow(a as int, e as nat)));
pub assume_specification [i64::unsigned_abs] (a: i64) -> (r: u64)
    ensures r == iabs(a as int);

pub assume_specification<T: Clone + num::Integer> [Ratio::<T>::from_integer] (a: T) -> (r: Ratio<T>)
    ensures ratio_num(r) == int_of(a), ratio_den(r) == 1;
/// `Ratio::new` reduces and makes the denominator positive: panics on a zero denominator and when
/// negating `T::MIN` (debug build; in release the wrapped value breaks the invariant)
pub assume_specification<T: Clone + num::Integer> [Ratio::<T>::new] (n: T, d: T) -> (r: Ratio<T>)
    requires int_of(d) != 0, int_of(d) < 0 ==> int_of(n) != tmin::<T>() && int_of(d) != tmin::<T>(),
    ensures q_eq(ratio_num(r), ratio_den(r), int_of(n), int_of(d)), ratio_den(r) > 0;
/// (trait method: Verus allows no `requires` here; the result is only specified for a positive denominator)
pub assume_specification<T: Clone + num::Integer> [<Ratio<T> as From<(T, T)>>::from] (p: (T, T)) -> (r: Ratio<T>)
    ensures int_of(p.1) > 0 ==> q_eq(ratio_num(r), ratio_den(r), int_of(p.0), int_of(p.1)) && ratio_den(r) > 0;
/// (float arms of numerator / denominator: nothing is claimed about them)
pub assume_specification [<Ratio<BigInt> as num::FromPrimitive>::from_f64] (x: f64) -> (r: Option<Ratio<BigInt>>);
pub assume_specification<T> [Ratio::<T>::numer] (a: &Ratio<T>) -> (r: &T)
    ensures int_of(*r) == ratio_num(*a);
pub assume_specification<T> [Ratio::<T>::denom] (a: &Ratio<T>) -> (r: &T)
    ensures int_of(*r) == ratio_den(*a);

/// num-rational 0.4 checked ops return `None` when an intermediate (lcm, scaled numerators, sum,
/// cross products after gcd cancellation) overflows T -- which can happen although the reduced
/// result would fit; the predicates name exactly "the library gave up"
pub uninterp spec fn ratio_add_none<T>(an: int, ad: int, bn: int, bd: int) -> bool;
pub uninterp spec fn ratio_sub_none<T>(an: int, ad: int, bn: int, bd: int) -> bool;
pub uninterp spec fn ratio_mul_none<T>(an: int, ad: int, bn: int, bd: int) -> bool;
pub uninterp spec fn ratio_div_none<T>(an: int, ad: int, bn: int, bd: int) -> bool;
pub assume_specification<T: Clone + num::Integer + num::CheckedMul + num::CheckedAdd> [<Ratio<T> as num::CheckedAdd>::checked_add] (a: &Ratio<T>, b: &Ratio<T>) -> (r: Option<Ratio<T>>)
    ensures (r matches Some(v) ==> ratio_den(v) > 0 && q_eq(ratio_num(v), ratio_den(v), ratio_num(*a) * ratio_den(*b) + ratio_num(*b) * ratio_den(*a), ratio_den(*a) * ratio_den(*b))),
            (r is None <==> ratio_add_none::<T>(ratio_num(*a), ratio_den(*a), ratio_num(*b), ratio_den(*b)));
pub assume_specification<T: Clone + num::Integer + num::CheckedMul + num::CheckedSub> [<Ratio<T> as num::CheckedSub>::checked_sub] (a: &Ratio<T>, b: &Ratio<T>) -> (r: Option<Ratio<T>>)
    ensures (r matches Some(v) ==> ratio_den(v) > 0 && q_eq(ratio_num(v), ratio_den(v), ratio_num(*a) * ratio_den(*b) - ratio_num(*b) * ratio_den(*a), ratio_den(*a) * ratio_den(*b))),
            (r is None <==> ratio_sub_none::<T>(ratio_num(*a), ratio_den(*a), ratio_num(*b), ratio_den(*b)));
pub assume_specification<T: Clone + num::Integer + num::CheckedMul> [<Ratio<T> as num::CheckedMul>::checked_mul] (a: &Ratio<T>, b: &Ratio<T>) -> (r: Option<Ratio<T>>)
    ensures (r matches Some(v) ==> ratio_den(v) > 0 && q_eq(ratio_num(v), ratio_den(v), ratio_num(*a) * ratio_num(*b), ratio_den(*a) * ratio_den(*b))),
            (r is None <==> ratio_mul_none::<T>(ratio_num(*a), ratio_den(*a), ratio_num(*b), ratio_den(*b)));
pub assume_specification<T: Clone + num::Integer> [Ratio::<T>::is_integer] (a: &Ratio<T>) -> (r: bool)
    ensures r <==> ratio_den(*a) == 1;
pub assume_specification<T: Clone + num::Integer> [Ratio::<T>::to_integer] (a: &Ratio<T>) -> (r: T)
    ensures int_of(r) == tdiv(ratio_num(*a), ratio_den(*a)), ratio_den(*a) == 1 ==> int_of(r) == ratio_num(*a);
/// num-rational computes `(numer - denom + 1) / denom` for negatives: overflows (panics) when numer - denom < T::MIN
pub assume_specification<T: Clone + num::Integer> [Ratio::<T>::floor] (a: &Ratio<T>) -> (r: Ratio<T>)
    requires ratio_num(*a) < 0 ==> ratio_num(*a) - ratio_den(*a) >= tmin::<T>(),
    ensures ratio_den(r) == 1, ratio_num(r) == fdiv(ratio_num(*a), ratio_den(*a));
/// ... and `(numer + denom - 1) / denom` for non-negatives: overflows when numer + denom > T::MAX
pub assume_specification<T: Clone + num::Integer> [Ratio::<T>::ceil] (a: &Ratio<T>) -> (r: Ratio<T>)
    requires ratio_num(*a) >= 0 ==> ratio_num(*a) + ratio_den(*a) <= tmax::<T>(),
    ensures ratio_den(r) == 1, ratio_num(r) == cdiv(ratio_num(*a), ratio_den(*a));
pub assume_specification<T: Clone + num::Integer> [Ratio::<T>::trunc] (a: &Ratio<T>) -> (r: Ratio<T>)
    ensures ratio_den(r) == 1, ratio_num(r) == tdiv(ratio_num(*a), ratio_den(*a));
pub assume_specification<T: Clone + num::Integer> [Ratio::<T>::round] (a: &Ratio<T>) -> (r: Ratio<T>)
    ensures ratio_den(r) == 1;
/// `Signed::abs` on a ratio negates the numerator: overflows (panics in debug) for `T::MIN`
pub assume_specification<T: Clone + num::Integer + num::Signed> [<Ratio<T> as num::Signed>::abs] (a: &Ratio<T>) -> (r: Ratio<T>)
    ensures ratio_num(*a) != tmin::<T>() ==> ratio_den(r) == ratio_den(*a) && ratio_num(r) == iabs(ratio_num(*a));

pub assume_specification [<BigInt as From<i64>>::from] (a: i64) -> (r: BigInt) ensures big_val(r) == a;
pub assume_specification [<BigInt as From<i32>>::from] (a: i32) -> (r: BigInt) ensures big_val(r) == a;
pub assume_specification [<BigInt as From<u64>>::from] (a: u64) -> (r: BigInt) ensures big_val(r) == a;
pub assume_specification [<BigInt as num::Signed>::abs] (a: &BigInt) -> (r: BigInt) ensures big_val(r) == iabs(big_val(*a));
pub assume_specification<T: Clone + num::Integer + num::Signed> [<Ratio<T> as num::Signed>::is_negative] (a: &Ratio<T>) -> (r: bool) ensures r == (ratio_num(*a) < 0);
pub assume_specification [<BigInt as num::Signed>::is_negative] (a: &BigInt) -> (r: bool) ensures r == (big_val(*a) < 0);
pub assume_specification [BigInt::pow] (a: &BigInt, e: u32) -> (r: BigInt) ensures big_val(r) == ipow(big_val(*a), e as nat);

pub assume_specification<T: Clone + num::Integer> [Ratio::<T>::pow] (a: &Ratio<T>, e: i32) -> (r: Ratio<T>)
    where for<'a> &'a T: num::traits::Pow<u32, Output = T>
    requires e >= 0, tmin::<T>() <= ipow(ratio_num(*a), e as nat) <= tmax::<T>(), tmin::<T>() <= ipow(ratio_den(*a), e as nat) <= tmax::<T>(),
    ensures ratio_num(r) == ipow(ratio_num(*a), e as nat), ratio_den(r) == ipow(ratio_den(*a), e as nat);
pub assume_specification [f64::floor] (a: f64) -> f64;
pub assume_specification [f64::ceil] (a: f64) -> f64;
pub assume_specification [f64::round] (a: f64) -> f64;
pub assume_specification [f64::trunc] (a: f64) -> f64;
pub assume_specification [<f64 as num::Signed>::abs] (a: &f64) -> f64;
pub assume_specification [f64::powf] (a: f64, b: f64) -> f64;
} // mod numspec
pub use numspec::*;
broadcast use numspec::group_num;

// ---------------------------------------------------------------- the value model of `Number`
// `enum Number` stays outside verus!{} (its derived Clone needs an assumed spec); transparent external type
#[verifier::external_type_specification]
pub struct ExNumber(Number);
pub open spec fn is_exact(n: Number) -> bool { !(n is Float) }
/// exact value of an exact number is vnum / vden, vden > 0
pub open spec fn vnum(n: Number) -> int {
    match n { Number::Fixnum(i) => i as int, Number::BigInt(b) => big_val(*b), Number::Rational(r) => r32_num(r), Number::Float(_) => 0 }
}
pub open spec fn vden(n: Number) -> int {
    match n { Number::Rational(r) => r32_den(r), _ => 1 }
}
/// exact integer (in any representation)
pub open spec fn is_int(n: Number) -> bool { is_exact(n) && vden(n) == 1 }
pub open spec fn is_sum(r: Number, a: Number, b: Number) -> bool {
    q_eq(vnum(r), vden(r), vnum(a) * vden(b) + vnum(b) * vden(a), vden(a) * vden(b))
}
pub open spec fn is_diff(r: Number, a: Number, b: Number) -> bool {
    q_eq(vnum(r), vden(r), vnum(a) * vden(b) - vnum(b) * vden(a), vden(a) * vden(b))
}
pub open spec fn is_prod(r: Number, a: Number, b: Number) -> bool {
    q_eq(vnum(r), vden(r), vnum(a) * vnum(b), vden(a) * vden(b))
}
pub open spec fn is_quot(r: Number, a: Number, b: Number) -> bool {
    q_eq(vnum(r), vden(r), vnum(a) * vden(b), vden(a) * vnum(b))
}
pub open spec fn same_value(r: Number, a: Number) -> bool { q_eq(vnum(r), vden(r), vnum(a), vden(a)) }
/// Where the implementation gives up exactness although both operands are exact.  Each disjunct is
/// either "num-rational's checked op returned None" or a whole representation pair that marwood sends
/// to floating point; every one that is wider than "the result is not representable" is a KNOWN
/// FINDING (see known_findings.txt) -- anything *else* going inexact fails the (E) clause.
pub open spec fn gives_up_add(a: Number, b: Number) -> bool {
    match (a, b) {
        (Number::Fixnum(x), Number::Rational(q)) => !fits_i32(x as int) || ratio_add_none::<i32>(x as int, 1, r32_num(q), r32_den(q)),
        (Number::Rational(q), Number::Fixnum(x)) => !fits_i32(x as int) || ratio_add_none::<i32>(x as int, 1, r32_num(q), r32_den(q)),
        (Number::BigInt(_), Number::Rational(q)) => r32_den(q) != 1,
        (Number::Rational(q), Number::BigInt(_)) => r32_den(q) != 1,
        (Number::Rational(p), Number::Rational(q)) => ratio_add_none::<i32>(r32_num(p), r32_den(p), r32_num(q), r32_den(q)),
        _ => false,
    }
}
pub open spec fn gives_up_sub(a: Number, b: Number) -> bool {
    match (a, b) {
        (Number::Fixnum(x), Number::Rational(q)) => !fits_i32(x as int) || ratio_sub_none::<i32>(x as int, 1, r32_num(q), r32_den(q)),
        (Number::Rational(q), Number::Fixnum(x)) => !fits_i32(x as int) || ratio_sub_none::<i32>(r32_num(q), r32_den(q), x as int, 1),
        (Number::BigInt(_), Number::Rational(q)) => r32_den(q) != 1,
        (Number::Rational(q), Number::BigInt(_)) => r32_den(q) != 1,
        (Number::Rational(p), Number::Rational(q)) => ratio_sub_none::<i32>(r32_num(p), r32_den(p), r32_num(q), r32_den(q)),
        _ => false,
    }
}
pub open spec fn gives_up_mul(a: Number, b: Number) -> bool {
    match (a, b) {
        (Number::Fixnum(x), Number::Rational(q)) => !fits_i32(x as int) || ratio_mul_none::<i32>(x as int, 1, r32_num(q), r32_den(q)),
        (Number::Rational(q), Number::Fixnum(x)) => !fits_i32(x as int) || ratio_mul_none::<i32>(x as int, 1, r32_num(q), r32_den(q)),
        (Number::BigInt(_), Number::Rational(q)) => r32_den(q) != 1,
        (Number::Rational(q), Number::BigInt(_)) => r32_den(q) != 1,
        (Number::Rational(p), Number::Rational(q)) => ratio_mul_none::<i32>(r32_num(p), r32_den(p), r32_num(q), r32_den(q)),
        _ => false,
    }
}
/// `/` builds a Rational32 directly, so any integer operand outside i32 goes inexact
pub open spec fn gives_up_div(a: Number, b: Number) -> bool {
    match (a, b) {
        (Number::Rational(p), Number::Rational(q)) => ratio_div_none::<i32>(r32_num(p), r32_den(p), r32_num(q), r32_den(q)),
        (Number::Rational(p), _) => !fits_i32(vnum(b)) || ratio_div_none::<i32>(r32_num(p), r32_den(p), vnum(b), 1),
        (_, Number::Rational(q)) => !fits_i32(vnum(a)) || ratio_div_none::<i32>(vnum(a), 1, r32_num(q), r32_den(q)),
        _ => !fits_i32(vnum(a)) || !fits_i32(vnum(b)) || ratio_div_none::<i32>(vnum(a), 1, vnum(b), 1),
    }
}
/// order of two exact numbers
pub open spec fn v_cmp(a: Number, b: Number) -> Ordering { q_cmp(vnum(a), vden(a), vnum(b), vden(b)) }
pub open spec fn v_eq(a: Number, b: Number) -> bool { q_eq(vnum(a), vden(a), vnum(b), vden(b)) }
/// exact zero, or any float (the `/` and `%` guards in the builtins reject a divisor that `==` 0)
pub open spec fn nonzero_divisor(n: Number) -> bool { is_exact(n) ==> vnum(n) != 0 }

impl vstd::std_specs::convert::FromSpecImpl<i64> for Number {
    open spec fn obeys_from_spec() -> bool { true }
    open spec fn from_spec(v: i64) -> Number { Number::Fixnum(v) }
}
impl vstd::std_specs::convert::FromSpecImpl<i32> for Number {
    open spec fn obeys_from_spec() -> bool { true }
    open spec fn from_spec(v: i32) -> Number { Number::Fixnum(v as i64) }
}
impl vstd::std_specs::convert::FromSpecImpl<f64> for Number {
    open spec fn obeys_from_spec() -> bool { true }
    open spec fn from_spec(v: f64) -> Number { Number::Float(v) }
}
impl vstd::std_specs::convert::FromSpecImpl<Rational32> for Number {
    open spec fn obeys_from_spec() -> bool { true }
    open spec fn from_spec(v: Rational32) -> Number { Number::Rational(v) }
}
impl vstd::std_specs::convert::FromSpecImpl<BigInt> for Number {
    open spec fn obeys_from_spec() -> bool { true }
    open spec fn from_spec(v: BigInt) -> Number { Number::BigInt(Rc::new(v)) }
}
impl vstd::std_specs::convert::FromSpecImpl<u64> for Number {
    open spec fn obeys_from_spec() -> bool { false }
    open spec fn from_spec(v: u64) -> Number { arbitrary() }
}
pub assume_specification [<Number as Clone>::clone] (a: &Number) -> (r: Number) ensures r == *a;
impl vstd::std_specs::ops::AddSpecImpl<Number> for Number {
    open spec fn obeys_add_spec() -> bool { false }
    open spec fn add_req(self, rhs: Number) -> bool { true }
    open spec fn add_spec(self, rhs: Number) -> Number { arbitrary() }
}
impl<'a> vstd::std_specs::ops::AddSpecImpl<&'a Number> for &'a Number {
    open spec fn obeys_add_spec() -> bool { false }
    open spec fn add_req(self, rhs: &'a Number) -> bool { true }
    open spec fn add_spec(self, rhs: &'a Number) -> Number { arbitrary() }
}
impl vstd::std_specs::ops::SubSpecImpl<Number> for Number {
    open spec fn obeys_sub_spec() -> bool { false }
    open spec fn sub_req(self, rhs: Number) -> bool { true }
    open spec fn sub_spec(self, rhs: Number) -> Number { arbitrary() }
}
impl<'a> vstd::std_specs::ops::SubSpecImpl<&'a Number> for &'a Number {
    open spec fn obeys_sub_spec() -> bool { false }
    open spec fn sub_req(self, rhs: &'a Number) -> bool { true }
    open spec fn sub_spec(self, rhs: &'a Number) -> Number { arbitrary() }
}
impl vstd::std_specs::ops::MulSpecImpl<Number> for Number {
    open spec fn obeys_mul_spec() -> bool { false }
    open spec fn mul_req(self, rhs: Number) -> bool { true }
    open spec fn mul_spec(self, rhs: Number) -> Number { arbitrary() }
}
impl<'a> vstd::std_specs::ops::MulSpecImpl<&'a Number> for &'a Number {
    open spec fn obeys_mul_spec() -> bool { false }
    open spec fn mul_req(self, rhs: &'a Number) -> bool { true }
    open spec fn mul_spec(self, rhs: &'a Number) -> Number { arbitrary() }
}
impl vstd::std_specs::ops::AddAssignSpecImpl<Number> for Number {
    open spec fn obeys_add_assign_spec() -> bool { false }
    open spec fn add_assign_req(&self, rhs: Number) -> bool { true }
    open spec fn add_assign_spec(&self, rhs: Number) -> &Number { arbitrary() }
}
impl vstd::std_specs::ops::MulAssignSpecImpl<Number> for Number {
    open spec fn obeys_mul_assign_spec() -> bool { false }
    open spec fn mul_assign_req(&self, rhs: Number) -> bool { true }
    open spec fn mul_assign_spec(&self, rhs: Number) -> &Number { arbitrary() }
}
impl vstd::std_specs::cmp::PartialEqSpecImpl for Number {
    open spec fn obeys_eq_spec() -> bool { false }
    open spec fn eq_spec(&self, other: &Number) -> bool { arbitrary() }
}
impl vstd::std_specs::cmp::PartialOrdSpecImpl for Number {
    open spec fn obeys_partial_cmp_spec() -> bool { false }
    open spec fn partial_cmp_spec(&self, other: &Number) -> Option<Ordering> { arbitrary() }
}
/// arms of `%` whose result is built inside a closure passed to `Option::map`: Verus keeps closure
/// results opaque, so nothing is known about them (tool limit, not a property of the code)
pub open spec fn rem_closure_arm(a: Number, b: Number) -> bool {
    (a is Float && (b is BigInt || b is Rational)) || (a is Rational && b is Float)
}
/// `%` is only specified (and only called by remainder / modulo) on integers with a non-zero divisor
pub open spec fn rem_domain(a: Number, b: Number) -> bool {
    nonzero_divisor(b) && (is_exact(a) ==> is_int(a)) && (is_exact(b) ==> is_int(b))
}
impl vstd::std_specs::ops::RemSpecImpl<Number> for Number {
    open spec fn obeys_rem_spec() -> bool { false }
    open spec fn rem_req(self, rhs: Number) -> bool { rem_domain(self, rhs) }
    open spec fn rem_spec(self, rhs: Number) -> Option<Number> { arbitrary() }
}
impl<'a> vstd::std_specs::ops::RemSpecImpl<&'a Number> for &'a Number {
    open spec fn obeys_rem_spec() -> bool { false }
    open spec fn rem_req(self, rhs: &'a Number) -> bool { rem_domain(*self, *rhs) }
    open spec fn rem_spec(self, rhs: &'a Number) -> Option<Number> { arbitrary() }
}
impl vstd::std_specs::ops::DivSpecImpl<Number> for Number {
    open spec fn obeys_div_spec() -> bool { false }
    open spec fn div_req(self, rhs: Number) -> bool { nonzero_divisor(rhs) }
    open spec fn div_spec(self, rhs: Number) -> Number { arbitrary() }
}
impl<'a> vstd::std_specs::ops::DivSpecImpl<&'a Number> for &'a Number {
    open spec fn obeys_div_spec() -> bool { false }
    open spec fn div_req(self, rhs: &'a Number) -> bool { nonzero_divisor(*rhs) }
    open spec fn div_spec(self, rhs: &'a Number) -> Number { arbitrary() }
}
'''

PRELUDE = (PRELUDE.replace('@@OP_AXIOMS@@', '\n'.join(t for _, t in AX) + F64_OPS)
           .replace('@@OBEYS@@', ',\n'.join('        ' + o for o in OBEYS))
           .replace('@@AX_NAMES@@', ', '.join(n for n, _ in AX)))

S = ['C08']
UNITS = [{
    'name': 'number',
    'file': 'src/number.rs',
    'wraps_types': ['Number'],
    'wrap': [],
    'prelude': PRELUDE,
    'fns': {
        'impl From<i64> for Number::from': {'props': ['C08']},
        'impl From<i32> for Number::from': {'props': ['C08']},
        'impl From<f64> for Number::from': {'props': ['C08']},
        'impl From<BigInt> for Number::from': {'props': ['C08']},
        'impl From<Rational32> for Number::from': {'props': ['C08']},
        'impl Add for &Number::add': {
            'props': ['C08', 'C06'],
            'ensures': [
                (S, 'is_exact(*self) && is_exact(*rhs) ==> is_exact(r) || gives_up_add(*self, *rhs)'),
                (S, 'is_exact(r) ==> is_exact(*self) && is_exact(*rhs) && is_sum(r, *self, *rhs)'),
                (S, '!(*self is Rational) && !(*rhs is Rational) ==> !(r is Rational)'),
            ],
        },
        'impl Add for Number::add': {
            'props': ['C08', 'C06'],
            'ensures': [
                (S, 'is_exact(self) && is_exact(rhs) ==> is_exact(r) || gives_up_add(self, rhs)'),
                (S, 'is_exact(r) ==> is_exact(self) && is_exact(rhs) && is_sum(r, self, rhs)'),
                (S, '!(self is Rational) && !(rhs is Rational) ==> !(r is Rational)'),
            ],
        },
        'impl Sub for &Number::sub': {
            'props': ['C08', 'C06'],
            'ensures': [
                (S, 'is_exact(*self) && is_exact(*rhs) ==> is_exact(r) || gives_up_sub(*self, *rhs)'),
                (S, 'is_exact(r) ==> is_exact(*self) && is_exact(*rhs) && is_diff(r, *self, *rhs)'),
                (S, '!(*self is Rational) && !(*rhs is Rational) ==> !(r is Rational)'),
            ],
        },
        'impl Mul for &Number::mul': {
            'props': ['C08', 'C06'],
            'ensures': [
                (S, 'is_exact(*self) && is_exact(*rhs) ==> is_exact(r) || gives_up_mul(*self, *rhs)'),
                (S, 'is_exact(r) ==> is_exact(*self) && is_exact(*rhs) && is_prod(r, *self, *rhs)'),
                (S, '!(*self is Rational) && !(*rhs is Rational) ==> !(r is Rational)'),
            ],
        },
        'impl Sub for Number::sub': {
            'props': ['C08', 'C06'],
            'ensures': [
                (S, 'is_exact(self) && is_exact(rhs) ==> is_exact(r) || gives_up_sub(self, rhs)'),
                (S, 'is_exact(r) ==> is_exact(self) && is_exact(rhs) && is_diff(r, self, rhs)'),
                (S, '!(self is Rational) && !(rhs is Rational) ==> !(r is Rational)'),
            ],
        },
        'impl Mul for Number::mul': {
            'props': ['C08', 'C06'],
            'ensures': [
                (S, 'is_exact(self) && is_exact(rhs) ==> is_exact(r) || gives_up_mul(self, rhs)'),
                (S, 'is_exact(r) ==> is_exact(self) && is_exact(rhs) && is_prod(r, self, rhs)'),
                (S, '!(self is Rational) && !(rhs is Rational) ==> !(r is Rational)'),
            ],
        },
        'impl Div for Number::div': {
            'props': ['C08', 'C06'],
            'ensures': [
                (S, 'is_exact(self) && is_exact(rhs) ==> is_exact(r) || gives_up_div(self, rhs)'),
                (S, 'is_exact(r) ==> is_exact(self) && is_exact(rhs) && is_quot(r, self, rhs)'),
            ],
        },
        'impl Rem for Number::rem': {
            'props': ['C08', 'C06'],
            'ensures': [
                (S, 'is_int(self) && is_int(rhs) ==> (r matches Some(v) && is_int(v) && !(v is Rational) && vnum(v) == trem(vnum(self), vnum(rhs)))'),
                (S, '(r matches Some(v) && is_exact(v)) ==> (is_exact(self) && is_exact(rhs)) || rem_closure_arm(self, rhs)'),
            ],
        },
        'impl From<u64> for Number::from': {
            'props': ['C08', 'C06'],
            'ensures': [(S, 'is_int(r) && vnum(r) == num')],
        },
        'impl Number::new_bigint': {
            'props': ['C08'], 'trusted': True,
            'ensures': [(S, 'r matches Number::BigInt(b) && big_val(*b) == big_into::<T>(num)')],
        },
        'impl Number::integer_as_fixnum': {
            'props': ['C08', 'C06'],
            'ensures': [
                (S, '(*self is Rational && is_int(*self)) ==> r == Number::Fixnum(vnum(*self) as i64)'),
                (S, '!(*self is Rational && is_int(*self)) ==> r == *self'),
            ],
        },
        'impl AddAssign for Number::add_assign': {
            'props': ['C08', 'C06'],
            'ensures': [(S, 'is_exact(*final(self)) ==> is_exact(*old(self)) && is_exact(rhs) && is_sum(*final(self), *old(self), rhs)'),
                        (S, 'is_exact(*old(self)) && is_exact(rhs) ==> is_exact(*final(self)) || gives_up_add(*old(self), rhs)')],
        },
        'impl MulAssign for Number::mul_assign': {
            'props': ['C08', 'C06'],
            'ensures': [(S, 'is_exact(*final(self)) ==> is_exact(*old(self)) && is_exact(rhs) && is_prod(*final(self), *old(self), rhs)'),
                        (S, '!(*old(self) is Rational) && !(rhs is Rational) ==> !(*final(self) is Rational)'),
                        (S, 'is_exact(*old(self)) && is_exact(rhs) ==> is_exact(*final(self)) || gives_up_mul(*old(self), rhs)')],
        },
        'impl Number::quotient': {
            'props': ['C08', 'C06'],
            'requires': ['nonzero_divisor(*rhs)'],
            'ensures': [
                (S, 'is_int(*self) && is_int(*rhs) ==> (r matches Some(v) && is_int(v) && vnum(v) == tdiv(vnum(*self), vnum(*rhs)))'),
            ],
        },
        'impl Rem for &Number::rem': {
            'props': ['C08', 'C06'],
            'ensures': [
                (S, 'is_int(*self) && is_int(*rhs) ==> (r matches Some(v) && is_int(v) && !(v is Rational) && vnum(v) == trem(vnum(*self), vnum(*rhs)))'),
                (S, '(r matches Some(v) && is_exact(v)) ==> (is_exact(*self) && is_exact(*rhs)) || rem_closure_arm(*self, *rhs)'),
            ],
        },
        'impl Number::modulo': {
            'props': ['C08', 'C06'],
            'requires': ['rem_domain(*self, *rhs)', '!(*self is Float && *rhs is BigInt)'],
            'ensures': [
                (S, 'is_int(*self) && is_int(*rhs) ==> (r matches Some(v) && is_int(v) && vnum(v) == fmod(vnum(*self), vnum(*rhs)))'),
            ],
        },
        'impl Number::abs': {
            'props': ['C08', 'C06'],
            'ensures': [
                (S, 'is_exact(r) ==> is_exact(*self)'),
                (S, 'is_exact(r) ==> vden(r) > 0 && q_eq(vnum(r), vden(r), iabs(vnum(*self)), vden(*self))'),
                (S, 'is_exact(*self) ==> is_exact(r) || (*self is Rational && vnum(*self) == i32::MIN && vden(*self) != 1)'),
            ],
        },
        # trusted (assumed from the body: every arm converts an integer value that fits; proving it needs a model of ToPrimitive per type)
        'impl Number::to_u32': {
            'props': ['C08', 'C06'], 'trusted': True,
            'ensures': [(S, 'r matches Some(e) ==> (is_exact(*self) ==> is_int(*self) && vnum(*self) == e)')],
        },
        'impl Number::numerator': {
            'props': ['C08', 'C06'],
            'ensures': [(S, 'is_exact(*self) ==> is_int(r) && vnum(r) == vnum(*self)')],
        },
        'impl Number::denominator': {
            'props': ['C08', 'C06'],
            'ensures': [(S, 'is_exact(*self) ==> is_int(r) && vnum(r) == vden(*self)')],
        },
        'impl Number::floor': {
            'props': ['C08', 'C06'],
            'ensures': [
                (S, 'is_exact(r) <==> is_exact(*self)'),
                (S, 'is_exact(*self) ==> is_int(r) && vnum(r) == fdiv(vnum(*self), vden(*self))'),
            ],
        },
        'impl Number::ceil': {
            'props': ['C08', 'C06'],
            'ensures': [
                (S, 'is_exact(r) <==> is_exact(*self)'),
                (S, 'is_exact(*self) ==> is_int(r) && vnum(r) == cdiv(vnum(*self), vden(*self))'),
            ],
        },
        'impl Number::truncate': {
            'props': ['C08', 'C06'],
            'ensures': [
                (S, 'is_exact(r) <==> is_exact(*self)'),
                (S, 'is_exact(*self) ==> is_int(r) && vnum(r) == tdiv(vnum(*self), vden(*self))'),
            ],
        },
        'impl Number::pow': {
            'props': ['C08', 'C06'],
            'ensures': [
                (S, 'is_exact(r) ==> is_exact(*self) && vden(r) > 0 && q_eq(vnum(r), vden(r), ipow(vnum(*self), exp as nat), ipow(vden(*self), exp as nat))'),
                (S, 'is_exact(*self) ==> is_exact(r) || (*self is Rational && (!fits_i32(ipow(vnum(*self), exp as nat)) || !fits_i32(ipow(vden(*self), exp as nat))))'),
            ],
        },
        # declared so that a change that calls them stays decidable
        'impl Number::is_rational': {'props': ['C08', 'C09', 'C06'], 'ensures': [(S, 'r == is_exact(*self)')]},
        'impl Number::is_real': {'props': ['C06'], 'ensures': [(S, 'r')]},
        'impl Number::is_complex': {'props': ['C06'], 'ensures': [(S, 'r')]},
        'impl Number::is_integer': {
            'props': ['C08', 'C09', 'C06'],
            'ensures': [(S, 'is_exact(*self) ==> r == is_int(*self)')],
        },
        'impl PartialEq for Number::eq': {
            'props': ['C09', 'C06'],
            'ensures': [(['C09'], 'is_exact(*self) && is_exact(*rhs) ==> r == v_eq(*self, *rhs)')],
        },
        'impl PartialOrd for Number::partial_cmp': {
            'props': ['C09', 'C06'],
            'ensures': [(['C09'], 'is_exact(*self) && is_exact(*rhs) ==> r == Some(v_cmp(*self, *rhs))')],
        },
        '::checked_div_rational': {
            'props': ['C08', 'C06'],
            'ensures': [
                (S, 'r matches Some(v) ==> ratio_num(*rhs) != 0 && ratio_den(v) > 0 && q_eq(ratio_num(v), ratio_den(v), ratio_num(*lhs) * ratio_den(*rhs), ratio_den(*lhs) * ratio_num(*rhs))'),
                (S, 'r is None <==> ratio_num(*rhs) == 0 || (ratio_num(*lhs) != 0 && ratio_div_none::<i32>(ratio_num(*lhs), ratio_den(*lhs), ratio_num(*rhs), ratio_den(*rhs)))'),
            ],
        },
        'impl Div for &Number::div': {
            'props': ['C08', 'C06'],
            'ensures': [
                (S, 'is_exact(*self) && is_exact(*rhs) ==> is_exact(r) || gives_up_div(*self, *rhs)'),
                (S, 'is_exact(r) ==> is_exact(*self) && is_exact(*rhs) && is_quot(r, *self, *rhs)'),
            ],
        },
    },
}]
