"""Unit `heap_model`: the collector interface of Heap for group `gcroots`, where Heap is opaque.

No function of heap.rs is verified here.  The unit only *declares*, over uninterpreted views of the opaque Heap, the very contract
texts that unit `heap` PROVES on the real bodies of Heap::mark / mark_vcell (specs/heap_mark.py: MARK_PRELUDE and the clause lists of
MARK_FNS are imported, not copied), so that Vm::run_gc can be verified against them ("one text, two instantiations").

Why not run run_gc in one group with the verified heap unit: Heap::sweep is verified under the full representation invariant
Heap::wf, and marking does not preserve wf when a *free* cell gets marked (a dangling reference).  That no free cell is reachable
is the mutator-side half of C03 (a whole-history invariant no contract here decides), so wf at the sweep call cannot be
established; here sweep is declared without that precondition, and the gap is listed as an assumption.
"""
import os, sys
sys.path.insert(0, os.path.dirname(os.path.abspath(__file__)))
import importlib
import heap_mark as _hm
importlib.reload(_hm)


def _clauses(key):
    spec = _hm.MARK_FNS[key]
    req = ', '.join(spec.get('requires', [])).replace('old(self)', 'old(h)')
    ens = ', '.join(t for (_, t) in spec['ensures']).replace('final(self)', 'final(h)').replace('old(self)', 'old(h)')
    return req, ens


_mark_req, _mark_ens = _clauses('impl Heap::mark')
_mv_req, _mv_ens = _clauses('impl Heap::mark_vcell')

PRELUDE = r'''
impl crate::vm::gc::Map {
    pub uninterp spec fn wf(&self) -> bool;
    pub uninterp spec fn cap(&self) -> usize;
    pub uninterp spec fn state_bits(&self, i: int) -> u8;
}
/// the views of unit `heap`, uninterpreted here (Heap is opaque in this group)
impl Heap {
    pub uninterp spec fn cells(&self) -> Seq<VCell>;
    pub uninterp spec fn gcmap(&self) -> crate::vm::gc::Map;
    pub uninterp spec fn free_cells(&self) -> Seq<usize>;
    pub uninterp spec fn table(&self) -> Map<String, usize>;
    pub uninterp spec fn chunk(&self) -> usize;
    pub open spec fn len(&self) -> int { self.cells().len() as int }
    pub open spec fn state(&self, p: int) -> u8 { self.gcmap().state_bits(p) }
    /// what marking needs of the heap (the part of Heap::wf that MREQ names)
    pub open spec fn markable(&self) -> bool { self.gcmap().wf() && self.gcmap().cap() == self.len() }
}
''' + _hm.MARK_PRELUDE + r'''
// ---------------------------------------------------------------- the collector interface, declared with the clause texts unit `heap` proves
pub assume_specification [Heap::mark] (h: &mut Heap, root: usize)
    requires MARK_REQ
    ensures MARK_ENS;
pub assume_specification [Heap::mark_vcell] (h: &mut Heap, vcell: &VCell)
    requires MV_REQ
    ensures MV_ENS;
/// sweep: verified in unit `heap` under Heap::wf (see the module comment); here only its frame on the mark-phase views is needed: none
pub assume_specification [Heap::sweep] (h: &mut Heap);
/// the utilisation gate and the growth policy are f64 arithmetic (uninterpreted in Verus): run_gc may or may not collect / grow
pub assume_specification [Heap::used_size] (h: &Heap) -> (r: usize);
pub assume_specification [Heap::capacity] (h: &Heap) -> (r: usize);
pub assume_specification [Heap::grow] (h: &mut Heap);
'''
PRELUDE = PRELUDE.replace('MARK_REQ', _mark_req).replace('MARK_ENS', _mark_ens).replace('MV_REQ', _mv_req).replace('MV_ENS', _mv_ens)

UNITS = [{
    'name': 'heap_model',
    'file': 'src/vm/heap.rs',
    'wrap': [],
    'uses_types': ['VCell', 'Cell', 'Heap', 'GcMap', 'Continuation', 'Lambda', 'BindingSource', 'RcDeref', 'RcAsRef', 'Vector', 'LexicalEnvironment', 'VectorView', 'EnvView'],
    'prelude': PRELUDE,
    'fns': {},
}]
