import os, sys
sys.path.insert(0, os.path.dirname(os.path.abspath(__file__)))
import importlib
import stack as _stack_spec
importlib.reload(_stack_spec)
"""Units `vm_struct` (marwood/src/vm/mod.rs: struct Vm) and `run` (marwood/src/vm/run.rs: run_count, run) -- C13, C07."""

VM_STRUCT_PRELUDE = r'''
#[verifier::external_trait_specification]
pub trait ExSystemInterface: Debug { type ExternalTraitSpecificationFor: SystemInterface; }
impl Vm {
    pub closed spec fn stack_spec(&self) -> crate::vm::stack::Stack { self.stack }
    pub closed spec fn regs(&self) -> (usize, (usize, usize), usize) { (self.ep, self.ip, self.bp) }
    pub closed spec fn acc_spec(&self) -> VCell { self.acc }
    pub closed spec fn heap_spec(&self) -> crate::vm::heap::Heap { self.heap }
    pub closed spec fn globenv_spec(&self) -> crate::vm::environment::GlobalEnvironment { self.globenv }
    /// a stack trace of a failed evaluation is on record
    pub closed spec fn has_trace(&self) -> bool { self.last_stacktrace is Some }
}
'''

RUN_PRELUDE = r'''
use crate::vm::heap::Heap; use crate::vm::stack::Stack; use crate::vm::environment::GlobalEnvironment;

// ---------------------------------------------------------------- abstract machine
/// Everything one instruction reads or writes: heap, globals, stack and the four registers.
/// (`sys`, the output sink, and `last_stacktrace` are not inputs of an instruction.)
pub uninterp spec fn obs_parts(heap: Heap, globenv: GlobalEnvironment, stack: Stack, acc: VCell, ep: usize, ip: (usize, usize), bp: usize) -> int;
pub closed spec fn obs(vm: Vm) -> int { obs_parts(vm.heap, vm.globenv, vm.stack, vm.acc, vm.ep, vm.ip, vm.bp) }
/// state after one instruction; 0 continue / 1 halt / 2 fail; the error a failing instruction returns
pub uninterp spec fn step_obs(o: int) -> int;
pub uninterp spec fn step_kind(o: int) -> int;
pub uninterp spec fn step_err(o: int) -> Error;
/// value delivered when the machine halted in state o
pub uninterp spec fn halt_value(o: int) -> Cell;
pub open spec fn iter(o: int, n: nat) -> int decreases n { if n == 0 { o } else { step_obs(iter(o, (n - 1) as nat)) } }
/// none of the first n instructions halts or fails
pub open spec fn runs(o: int, n: nat) -> bool { forall|i: nat| i < n ==> step_kind(#[trigger] iter(o, i)) == 0 }

// ---------------------------------------------------------------- assumed contracts of the callees
/// one instruction is a deterministic function of the observable state (safe single-threaded Rust over &mut self)
pub assume_specification [Vm::run_one] (vm: &mut Vm) -> (r: Result<bool, Error>)
   ensures obs(*final(vm)) == step_obs(obs(*old(vm))),
           (r matches Ok(false)) <==> step_kind(obs(*old(vm))) == 0,
           (r matches Ok(true)) <==> step_kind(obs(*old(vm))) == 1,
           (r is Err) <==> step_kind(obs(*old(vm))) == 2,
           r matches Err(e) ==> e == step_err(obs(*old(vm))),
           final(vm).has_trace() == old(vm).has_trace();
/// a collection does not change the observable state (this is property C03; assumed here)
pub assume_specification [Vm::run_gc] (vm: &mut Vm) ensures obs(*final(vm)) == obs(*old(vm)), final(vm).has_trace() == old(vm).has_trace();
/// fetching an opcode moves the instruction pointer: nothing is known about the observable state afterwards (run_count never calls it)
pub assume_specification [Vm::read_opcode] (vm: &mut Vm) -> (r: Result<crate::vm::opcode::OpCode, Error>);
pub assume_specification [crate::vm::trace::StackTrace::new] (s: &Stack, h: &Heap, ip: (usize, usize), acc: VCell) -> (r: StackTrace);
pub uninterp spec fn heap_value(h: Heap, v: VCell) -> Cell;
pub assume_specification [Heap::get_as_cell] (h: &Heap, v: &VCell) -> (r: Cell) ensures r == heap_value(*h, *v);
pub uninterp spec fn stack_sp(s: Stack) -> usize;
pub uninterp spec fn stack_wiped(s: Stack) -> bool;
/// every slot Undefined afterwards, sp unchanged (proved in unit `stack`; assumed in this group where Stack is opaque)
pub assume_specification [Stack::clear] (s: &mut Stack) ensures CLEAR_MODEL_U;
/// hands out the stack pointer register: only sp changes through the returned reference
/// further Stack accessors (run_count does not call them; declared so that a change that does stays decidable): nothing is known
/// about what a write through get_mut leaves
pub assume_specification [Stack::get_sp] (s: &Stack) -> (r: usize) ensures GET_SP_MODEL_U;
pub assume_specification [Stack::len] (s: &Stack) -> (r: usize);
pub assume_specification [Stack::get] (s: &Stack, i: usize) -> (r: Result<&VCell, Error>);
pub assume_specification [Stack::get_mut] (s: &mut Stack, i: usize) -> (r: Result<&mut VCell, Error>);
pub assume_specification [Stack::get_sp_mut] (s: &mut Stack) -> (r: &mut usize)
    ensures GET_SP_MUT_MODEL_U;
/// heap and global environment of an observable state
pub uninterp spec fn obs_store(o: int) -> (Heap, GlobalEnvironment);
#[verifier::external_body]
pub proof fn axiom_obs_store(heap: Heap, globenv: GlobalEnvironment, stack: Stack, acc: VCell, ep: usize, ip: (usize, usize), bp: usize)
    ensures obs_store(obs_parts(heap, globenv, stack, acc, ep, ip, bp)) == (heap, globenv) {}
impl Vm {
    /// the idle top-level control state: empty wiped stack, no frame, no environment
    pub closed spec fn idle(&self) -> bool { stack_sp(self.stack) == 0 && stack_wiped(self.stack) && self.bp == 0 && self.ep == usize::MAX }
}
/// the halt value is the accumulator read through the heap
#[verifier::external_body]
pub proof fn axiom_halt_value(heap: Heap, globenv: GlobalEnvironment, stack: Stack, acc: VCell, ep: usize, ip: (usize, usize), bp: usize)
    ensures halt_value(obs_parts(heap, globenv, stack, acc, ep, ip, bp)) == heap_value(heap, acc) {}


// ---------------------------------------------------------------- composition of slices (pure lemmas, proved)
pub proof fn lemma_iter_add(o: int, a: nat, b: nat) ensures iter(iter(o, a), b) == iter(o, a + b) decreases b {
    if b > 0 { lemma_iter_add(o, a, (b - 1) as nat); }
}
pub proof fn lemma_runs_add(o: int, a: nat, b: nat)
    requires runs(o, a), runs(iter(o, a), b) ensures runs(o, a + b)
{
    assert forall|i: nat| i < a + b implies step_kind(#[trigger] iter(o, i)) == 0 by {
        if i >= a { lemma_iter_add(o, a, (i - a) as nat); assert(step_kind(iter(iter(o, a), (i - a) as nat)) == 0); }
    }
}
/// result of `run_count(count)` from state o as the contract below states it: Some(k) = stops (halt or fail) at step k < count
pub open spec fn first_stop(o: int, count: nat, k: nat) -> bool { k < count && runs(o, k) && step_kind(iter(o, k)) != 0 }
/// the stopping step is unique, so slicing cannot change which instruction ends the evaluation
pub proof fn lemma_stop_unique(o: int, k1: nat, k2: nat)
    requires runs(o, k1), step_kind(iter(o, k1)) != 0, runs(o, k2), step_kind(iter(o, k2)) != 0 ensures k1 == k2
{ if k1 < k2 { assert(step_kind(iter(o, k1)) == 0); } else if k2 < k1 { assert(step_kind(iter(o, k2)) == 0); } }
/// two consecutive slices with budgets a >= 1 then b, the first of which did not finish, behave like one slice of a + b:
/// the second slice stops at step k of its own start state  <=>  the single slice stops at step a + k
pub proof fn lemma_slices_compose(o: int, a: nat, b: nat, k: nat)
    requires runs(o, a), first_stop(iter(o, a), b, k)
    ensures first_stop(o, a + b, a + k), iter(iter(o, a), k) == iter(o, a + k)
{
    lemma_iter_add(o, a, k);
    lemma_runs_add(o, a, k);
}
/// ... and if the second slice does not finish either, the two together are exactly `a + b` uninterrupted steps
pub proof fn lemma_slices_continue(o: int, a: nat, b: nat)
    requires runs(o, a), runs(iter(o, a), b)
    ensures runs(o, a + b), iter(iter(o, a), b) == iter(o, a + b)
{ lemma_iter_add(o, a, b); lemma_runs_add(o, a, b); }
'''

P13 = ['C13']
UNITS = [
    {
        'name': 'vm_struct',
        'file': 'src/vm/mod.rs',
        'wrap': ['struct Vm'],
        'wraps_types': ['Vm'],
        'uses_types': ['Heap', 'Stack', 'GlobalEnvironment', 'StackTrace', 'VCell'],
        'no_trait_conflicts': True,
        'prelude': VM_STRUCT_PRELUDE,
        'fns': {},
    },
    {
        'name': 'run',
        'file': 'src/vm/run.rs',
        'uses_types': ['Cell', 'Error', 'Heap', 'Stack', 'GlobalEnvironment', 'StackTrace', 'VCell', 'OpCodeT'],
        'prelude': RUN_PRELUDE.replace('GET_SP_MUT_MODEL_U', _stack_spec.GET_SP_MUT_MODEL.replace('WIPED', 'stack_wiped').replace('SP', 'stack_sp').replace('s1', '*final(s)').replace('s0', '*old(s)').replace('r0', '*r').replace('r1', '*final(r)'))
                              .replace('GET_SP_MODEL_U', _stack_spec.GET_SP_MODEL.replace('SP', 'stack_sp').replace('s0', '*s').replace('r0', 'r'))
                              .replace('CLEAR_MODEL_U', _stack_spec.CLEAR_MODEL.replace('WIPED', 'stack_wiped').replace('SP', 'stack_sp').replace('s1', '*final(s)').replace('s0', '*old(s)')),
        'fns': {
            'impl Vm::run_count': {
                'props': ['C13', 'C07', 'C06'],
                'loop_isolation': True,  # invariant_except_break / loop ensures need an isolated loop
                'attrs': '#[verifier::exec_allows_no_decreases_clause]',
                'requires': ['count >= 1'],
                'ensures': [
                    # not finished: exactly `count` instructions were executed, none of which stops (progress: count >= 1)
                    (P13, '(r matches Ok(None)) ==> runs(obs(*old(self)), count as nat) && obs(*final(self)) == iter(obs(*old(self)), count as nat)'),
                    # halted: at the first stopping step k < count, which is a halt; value = accumulator of the state after it
                    (P13, 'r matches Ok(Some(c)) ==> exists|k: nat| first_stop(obs(*old(self)), count as nat, k) && step_kind(iter(obs(*old(self)), k)) == 1 && c == halt_value(iter(obs(*old(self)), k + 1))'),
                    # failed: at the first stopping step k < count, which fails, with that instruction's error; state = state after it
                    (P13, 'r matches Err(e) ==> exists|k: nat| first_stop(obs(*old(self)), count as nat, k) && step_kind(iter(obs(*old(self)), k)) == 2 && e == step_err(iter(obs(*old(self)), k)) && obs_store(obs(*final(self))) == obs_store(iter(obs(*old(self)), k + 1))'),
                    # C07: a failed evaluation leaves the machine in the idle top-level control state (no frames, no stale roots)
                    (['C07'], '(r is Err) ==> final(self).idle()'),
                    # C07: the recorded stack trace is the one of THIS evaluation: none unless it failed (a stale trace of an earlier failure is gone)
                    (['C07'], '(r is Ok) ==> !final(self).has_trace()'),
                ],
                'loops': {0: '''invariant_except_break
                    cycles < count, !self.has_trace(),
                    runs(obs(*old(self)), cycles as nat),
                    obs(*self) == iter(obs(*old(self)), cycles as nat),
                ensures
                    1 <= cycles <= count, !self.has_trace(),
                    runs(obs(*old(self)), (cycles - 1) as nat),
                    step_kind(iter(obs(*old(self)), (cycles - 1) as nat)) == 1,
                    obs(*self) == iter(obs(*old(self)), cycles as nat),'''},
                'loop_count': 1,
                'inserts': [
                    {'anchor': 'Err(e) => {', 'where': 'after', 'text': 'let ghost failed = *self;'},
                    {'anchor': 'return Err(e);', 'where': 'before', 'text': '''proof {
                        let k = (cycles - 1) as nat;
                        assert(iter(obs(*old(self)), k + 1) == step_obs(iter(obs(*old(self)), k)));
                        assert(first_stop(obs(*old(self)), count as nat, k));
                        assert(obs(failed) == iter(obs(*old(self)), k + 1));
                        axiom_obs_store(failed.heap, failed.globenv, failed.stack, failed.acc, failed.ep, failed.ip, failed.bp);
                        axiom_obs_store(self.heap, self.globenv, self.stack, self.acc, self.ep, self.ip, self.bp);
                    }'''},
                    {'anchor': 'let cell = self.heap.get_as_cell(&self.acc);', 'where': 'before', 'text': '''proof {
                        let k = (cycles - 1) as nat;
                        assert(first_stop(obs(*old(self)), count as nat, k));
                        axiom_halt_value(self.heap, self.globenv, self.stack, self.acc, self.ep, self.ip, self.bp);
                    }'''},
                ],
            },
        },
    },
]
