"""Unit `continuation`: marwood/src/vm/continuation.rs — capture / restore of the machine state (C05)."""

PRELUDE = r'''
// `struct Continuation` derives Clone / Eq over a tuple field, which Verus cannot ingest: the struct is wrapped with
// `#[verifier::external_derive]` (its derived impls stay external), its private fields are read through closed spec functions, and its
// getters and the struct literal in Vm::to_continuation are VERIFIED against them.
impl Continuation {
    pub closed spec fn stack_spec(&self) -> Stack { self.stack }
    pub closed spec fn regs_spec(&self) -> (usize, (usize, usize), usize) { (self.ep, self.ip, self.bp) }
}
pub open spec fn cont_stack(c: Continuation) -> Stack { c.stack_spec() }
pub open spec fn cont_regs(c: Continuation) -> (usize, (usize, usize), usize) { c.regs_spec() }
pub open spec fn cont_wf(c: Continuation) -> bool { cont_stack(c).wf() && cont_stack(c).cells().len() == cont_stack(c).sp_spec() + 1 }
'''

C5 = ['C05']
UNITS = [{    'name': 'continuation',
    'file': 'src/vm/continuation.rs',
    'wrap': ['struct Continuation'],
    'wrap_attrs': {'struct Continuation': '#[verifier::external_derive]'},
    'wraps_types': ['Continuation'],
    'uses_types': ['VCell', 'Heap', 'GlobalEnvironment'],
    'prelude': PRELUDE,
    'fns': {
        'impl Continuation::stack': {'props': C5 + ['C06'], 'ensures': [(C5, '*r == cont_stack(*self)')]},
        'impl Continuation::ip': {'props': C5 + ['C06'], 'ensures': [(C5, '*r == cont_regs(*self).1')]},
        'impl Continuation::ep': {'props': C5 + ['C06'], 'ensures': [(C5, 'r == cont_regs(*self).0')]},
        'impl Continuation::bp': {'props': C5 + ['C06'], 'ensures': [(C5, 'r == cont_regs(*self).2')]},
        'impl Vm::to_continuation': {
            'props': C5 + ['C06'],
            'requires': ['self.stack_spec().wf()'],
            'ensures': [
                # the capture holds the live stack, sp, and the three control registers of this very moment
                (C5, 'cont_wf(r) && cont_stack(r).cells() == self.stack_spec().live() && cont_stack(r).sp_spec() == self.stack_spec().sp_spec()'),
                (C5, 'cont_regs(r) == self.regs()'),
            ],
        },
        'impl Vm::restore_continuation': {
            'props': C5 + ['C06'],
            'requires': ['old(self).stack_spec().wf()', 'cont_wf(*cont)', 'cont_stack(*cont).cells().len() <= old(self).stack_spec().cells().len()'],
            'ensures': [
                # the machine is back at the captured control state; the accumulator is cleared (the invoker then delivers the value);
                # heap and globals are not touched, so mutations made since the capture stay visible
                (C5, 'final(self).stack_spec().wf() && final(self).stack_spec().live() == cont_stack(*cont).cells() && final(self).stack_spec().sp_spec() == cont_stack(*cont).sp_spec()'),
                (C5, 'final(self).regs() == cont_regs(*cont)'),
                (C5, 'final(self).acc_spec() == VCell::Undefined'),
                (C5, 'final(self).heap_spec() == old(self).heap_spec() && final(self).globenv_spec() == old(self).globenv_spec()'),
            ],
        },
    },
}]
