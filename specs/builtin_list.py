"""Unit `builtin_list`: marwood/src/vm/builtin/list.rs — pair accessors / mutators and list indexing (C14)."""

PRELUDE = r'''
use crate::vm::builtin::*;
use crate::vm::heap::Heap;
/// Heap::get_at_index_mut hands out one cell: everything else in the heap keeps its meaning
pub uninterp spec fn heap_len(h: Heap) -> nat;
pub assume_specification [Heap::get_at_index_mut] (h: &mut Heap, p: usize) -> (r: &mut VCell)
    requires (p as nat) < heap_len(*old(h)),
    ensures *r == heap_deref(*old(h), VCell::Ptr(p)),
            heap_deref(*final(h), VCell::Ptr(p)) == *final(r),
            heap_len(*final(h)) == heap_len(*old(h)),
            forall|c: VCell| #[trigger] heap_live(*final(h), c) == heap_live(*old(h), c),
            forall|q: usize| q != p ==> #[trigger] heap_deref(*final(h), VCell::Ptr(q)) == heap_deref(*old(h), VCell::Ptr(q)),
            forall|c: VCell| !(c is Ptr) ==> #[trigger] heap_deref(*final(h), c) == heap_deref(*old(h), c);
/// std: `impl<T> From<T> for T` is the identity, hence so is `Into<VCell> for VCell`
#[verifier::external_body]
pub proof fn axiom_vcell_into_self_l()
    ensures <VCell as vstd::std_specs::convert::IntoSpec<VCell>>::obeys_into_spec(),
            forall|c: VCell| #[trigger] <VCell as vstd::std_specs::convert::IntoSpec<VCell>>::into_spec(c) == c {}
/// a pointer that dereferences to a pair is inside the heap (pairs live in cells)
#[verifier::external_body]
pub proof fn axiom_live_ptr(h: Heap, p: usize) ensures heap_deref(h, VCell::Ptr(p)) is Pair ==> (p as nat) < heap_len(h) {}
/// pointer to the j-th tail of the list `start` (start itself for j = 0), following cdr fields through heap h
pub open spec fn tail_ptr(h: Heap, start: VCell, j: nat) -> VCell decreases j {
    if j == 0 { start } else { match heap_deref(h, tail_ptr(h, start, (j - 1) as nat)) { VCell::Pair(a, d) => VCell::Ptr(d), _ => VCell::Undefined } }
}
/// j-th cell of the list whose first cell is `first` (already dereferenced), following cdr pointers through heap h
pub open spec fn lcell(h: Heap, first: VCell, j: nat) -> VCell decreases j {
    if j == 0 { first } else { match lcell(h, first, (j - 1) as nat) { VCell::Pair(a, d) => heap_deref(h, VCell::Ptr(d)), _ => VCell::Undefined } }
}
/// the list that starts at pointer `start` consists of allocated pairs whose car fields are exactly the pointers `ptrs`, and ends in ()
pub open spec fn plist(h: Heap, start: VCell, ptrs: Seq<usize>) -> bool decreases ptrs.len() {
    heap_live(h, start) && if ptrs.len() == 0 { heap_deref(h, start) is Nil } else {
        heap_deref(h, start) matches VCell::Pair(a, d) && a == ptrs[0] && plist(h, VCell::Ptr(d), ptrs.subrange(1, ptrs.len() as int))
    }
}
/// allocated cells stay allocated and keep their content
pub open spec fn heap_ext(h: Heap, h2: Heap) -> bool { forall|c: VCell| #[trigger] heap_live(h, c) ==> heap_live(h2, c) && heap_deref(h2, c) == heap_deref(h, c) }
pub proof fn lemma_plist_preserved(h: Heap, h2: Heap, start: VCell, ptrs: Seq<usize>)
    requires plist(h, start, ptrs), heap_ext(h, h2) ensures plist(h2, start, ptrs) decreases ptrs.len()
{
    if ptrs.len() > 0 { match heap_deref(h, start) { VCell::Pair(a, d) => { lemma_plist_preserved(h, h2, VCell::Ptr(d), ptrs.subrange(1, ptrs.len() as int)); } _ => {} } }
}
/// every cdr field along the list designates an allocated cell (a reachable list never points into free cells: collector soundness, C03)
pub open spec fn spine_live(h: Heap, first: VCell) -> bool { forall|j: nat| (#[trigger] lcell(h, first, j)) matches VCell::Pair(a, d) ==> heap_live(h, VCell::Ptr(d)) }
/// ptrs are the car fields of the first ptrs.len() pairs of the list, in reverse order, and the list ends there
pub open spec fn reversed_cars(h: Heap, first: VCell, ptrs: Seq<usize>) -> bool {
    &&& forall|i: int| 0 <= i < ptrs.len() ==> ((#[trigger] lcell(h, first, (ptrs.len() - 1 - i) as nat)) matches VCell::Pair(a, d) && a == ptrs[i])
}
/// a chain of allocated pairs: cell cells[i] holds Pair(cars[i], cells[i + 1]), the last one Pair(cars[n - 1], end); the cells are pairwise distinct
pub open spec fn chain(h: Heap, cells: Seq<usize>, cars: Seq<usize>, end: usize) -> bool {
    &&& cells.len() == cars.len()
    &&& forall|i: int| 0 <= i < cells.len() ==> heap_live(h, VCell::Ptr(#[trigger] cells[i]))
            && heap_deref(h, VCell::Ptr(cells[i])) == VCell::Pair(cars[i], if i + 1 < cells.len() { cells[i + 1] } else { end })
    &&& forall|i: int, j: int| 0 <= i < j < cells.len() ==> cells[i] != cells[j]
}
/// cars are the car fields of the first cars.len() pairs of the list whose first cell is `first`, and the list ends in () right there
pub open spec fn cars_of(h: Heap, first: VCell, cars: Seq<usize>) -> bool {
    &&& forall|i: int| 0 <= i < cars.len() ==> ((#[trigger] lcell(h, first, i as nat)) matches VCell::Pair(a, d) && a == cars[i])
    &&& lcell(h, first, cars.len()) is Nil
}
/// none of the cells was allocated in h
pub open spec fn all_fresh(h: Heap, cells: Seq<usize>) -> bool { forall|i: int| 0 <= i < cells.len() ==> !heap_live(h, VCell::Ptr(#[trigger] cells[i])) }
/// what clone_list answers: a fresh chain, as long as the argument, with the argument's very car fields, ending in a fresh () cell;
/// head and tail point at its first and last pair
pub open spec fn cloned(h0: Heap, h1: Heap, list: VCell, head: VCell, tl: VCell, cells: Seq<usize>, cars: Seq<usize>, nilp: usize) -> bool {
    &&& cars.len() >= 1 && chain(h1, cells, cars, nilp) && cars_of(h0, list, cars)
    &&& heap_live(h1, VCell::Ptr(nilp)) && heap_deref(h1, VCell::Ptr(nilp)) is Nil && !heap_live(h0, VCell::Ptr(nilp))
    &&& head == VCell::Ptr(cells[0]) && tl == VCell::Ptr(cells[cells.len() - 1])
    &&& all_fresh(h0, cells) && heap_ext(h0, h1)
}
/// the first j tails all are pairs (so the j-th tail exists)
pub open spec fn has_tails(h: Heap, start: VCell, j: nat) -> bool { forall|i: nat| i < j ==> #[trigger] heap_deref(h, tail_ptr(h, start, i)) is Pair }
'''

L = ['C14', 'C06']
REQ = ['old(vm).stack_spec().wf()']
UNITS = [{
    'name': 'builtin_list',
    'file': 'src/vm/builtin/list.rs',
    'uses_types': ['VCell', 'Error', 'Heap', 'Cell'],
    'prelude': PRELUDE,
    'fns': {
        '::car': {
            'props': L, 'requires': REQ,
            'body_start': 'proof { if old(vm).stack_spec().sp_spec() > 1 { axiom_cow_cell_ref(&arg(*old(vm), 1)); } }',
            'ensures': [
                # the car field itself (a pointer to the same object), an error for a non-pair
                (['C14'], 'r matches Ok(x) ==> (heap_deref(old(vm).heap_spec(), arg(*old(vm), 1)) matches VCell::Pair(a, d) && x == VCell::Ptr(a))'),
                (['C14'], '(r is Err && old(vm).stack_spec().sp_spec() >= 2 && arg(*old(vm), 0) == VCell::ArgumentCount(1)) ==> !(heap_deref(old(vm).heap_spec(), arg(*old(vm), 1)) is Pair)'),
            ],
        },
        '::cdr': {
            'props': L, 'requires': REQ,
            'body_start': 'proof { if old(vm).stack_spec().sp_spec() > 1 { axiom_cow_cell_ref(&arg(*old(vm), 1)); } }',
            'ensures': [
                (['C14'], 'r matches Ok(x) ==> (heap_deref(old(vm).heap_spec(), arg(*old(vm), 1)) matches VCell::Pair(a, d) && x == VCell::Ptr(d))'),
                (['C14'], '(r is Err && old(vm).stack_spec().sp_spec() >= 2 && arg(*old(vm), 0) == VCell::ArgumentCount(1)) ==> !(heap_deref(old(vm).heap_spec(), arg(*old(vm), 1)) is Pair)'),
            ],
        },
        '::cons': {
            'props': L, 'requires': REQ,
            'body_start': 'proof { axiom_vcell_into_self_l(); }',
            'ensures': [
                # a pair whose fields designate the two argument objects themselves (a pointer argument is kept, not copied)
                (['C14'], '''r matches Ok(x) ==> (x matches VCell::Pair(a, d)
                    && (arg(*old(vm), 2) matches VCell::Ptr(p) ==> a == p) && (arg(*old(vm), 1) matches VCell::Ptr(p) ==> d == p)
                    && (!(arg(*old(vm), 2) is Ptr) ==> heap_deref(final(vm).heap_spec(), VCell::Ptr(a)) == arg(*old(vm), 2))
                    && (!(arg(*old(vm), 1) is Ptr) ==> heap_deref(final(vm).heap_spec(), VCell::Ptr(d)) == arg(*old(vm), 1)))'''),
            ],
        },
        '::set_car': {
            'props': L, 'requires': REQ,
            'body_start': 'proof { axiom_vcell_into_self_l(); }',
            'ensures': [
                # the addressed pair gets the new car (the argument object itself) and keeps its cdr; no other pair changes
                (['C14'], '''(r is Ok && heap_live(old(vm).heap_spec(), arg(*old(vm), 2))) ==> (arg(*old(vm), 2) matches VCell::Ptr(p) && (heap_deref(old(vm).heap_spec(), VCell::Ptr(p)) matches VCell::Pair(a0, d0)
                    && (heap_deref(final(vm).heap_spec(), VCell::Ptr(p)) matches VCell::Pair(a1, d1) && d1 == d0
                        && (arg(*old(vm), 1) matches VCell::Ptr(o) ==> a1 == o)
                        && (!(arg(*old(vm), 1) is Ptr) ==> heap_deref(final(vm).heap_spec(), VCell::Ptr(a1)) == arg(*old(vm), 1)))))'''),
                (['C14'], '''r is Ok ==> (arg(*old(vm), 2) matches VCell::Ptr(p) && forall|q: usize| q != p && heap_live(old(vm).heap_spec(), VCell::Ptr(q))
                    ==> #[trigger] heap_deref(final(vm).heap_spec(), VCell::Ptr(q)) == heap_deref(old(vm).heap_spec(), VCell::Ptr(q)))'''),
            ],
            'inserts': [{'anchor': '*vm.heap.get_at_index_mut(pair.as_ptr()?) = new_pair;', 'where': 'before',
                         'text': 'proof { axiom_cow_cell_ref(&pair); match pair { VCell::Ptr(pp) => { axiom_live_ptr(vm.heap_spec(), pp); } _ => {} } }'}],
        },
        '::set_cdr': {
            'props': L, 'requires': REQ,
            'body_start': 'proof { axiom_vcell_into_self_l(); }',
            'ensures': [
                (['C14'], '''(r is Ok && heap_live(old(vm).heap_spec(), arg(*old(vm), 2))) ==> (arg(*old(vm), 2) matches VCell::Ptr(p) && (heap_deref(old(vm).heap_spec(), VCell::Ptr(p)) matches VCell::Pair(a0, d0)
                    && (heap_deref(final(vm).heap_spec(), VCell::Ptr(p)) matches VCell::Pair(a1, d1) && a1 == a0
                        && (arg(*old(vm), 1) matches VCell::Ptr(o) ==> d1 == o)
                        && (!(arg(*old(vm), 1) is Ptr) ==> heap_deref(final(vm).heap_spec(), VCell::Ptr(d1)) == arg(*old(vm), 1)))))'''),
                (['C14'], '''r is Ok ==> (arg(*old(vm), 2) matches VCell::Ptr(p) && forall|q: usize| q != p && heap_live(old(vm).heap_spec(), VCell::Ptr(q))
                    ==> #[trigger] heap_deref(final(vm).heap_spec(), VCell::Ptr(q)) == heap_deref(old(vm).heap_spec(), VCell::Ptr(q)))'''),
            ],
            'inserts': [{'anchor': '*vm.heap.get_at_index_mut(pair.as_ptr()?) = new_pair;', 'where': 'before',
                         'text': 'proof { axiom_cow_cell_ref(&pair); match pair { VCell::Ptr(pp) => { axiom_live_ptr(vm.heap_spec(), pp); } _ => {} } }'}],
        },
        '::reverse': {
            'props': L,
            'loop_isolation': True,  # `loop` with break: invariant_except_break
            'attrs': '#[verifier::exec_allows_no_decreases_clause]',
            'requires': REQ + ['old(vm).stack_spec().sp_spec() > 1 ==> spine_live(old(vm).heap_spec(), heap_deref(old(vm).heap_spec(), arg(*old(vm), 1)))'],
            'body_start': 'proof { axiom_vcell_into_self_l(); if old(vm).stack_spec().sp_spec() > 1 { axiom_cow_cell_ref(&arg(*old(vm), 1)); } }',
            'ensures': [
                # () for (); otherwise a fresh list of allocated pairs whose cars are the very cars of the argument's pairs in reverse order,
                # as long as the argument; no allocated cell is changed (the argument list is intact)
                (['C14'], '''r matches Ok(t) ==> ({
                    let first = heap_deref(old(vm).heap_spec(), arg(*old(vm), 1));
                    &&& first is Nil ==> t == first
                    &&& first is Pair ==> exists|ptrs: Seq<usize>| #[trigger] plist(final(vm).heap_spec(), t, ptrs) && ptrs.len() >= 1
                            && reversed_cars(old(vm).heap_spec(), first, ptrs) && lcell(old(vm).heap_spec(), first, ptrs.len()) is Nil
                    &&& heap_ext(old(vm).heap_spec(), final(vm).heap_spec())
                })'''),
            ],
            'loops': {0: '''invariant_except_break rest is Pair,
                invariant
                    tail is Ptr, heap_ext(old(vm).heap_spec(), vm.heap_spec()), plist(vm.heap_spec(), tail, b),
                    list == heap_deref(old(vm).heap_spec(), arg(*old(vm), 1)), spine_live(old(vm).heap_spec(), list),
                    reversed_cars(old(vm).heap_spec(), list, b), rest == lcell(old(vm).heap_spec(), list, b.len()),
                    <VCell as vstd::std_specs::convert::IntoSpec<VCell>>::obeys_into_spec(), forall|c: VCell| #[trigger] <VCell as vstd::std_specs::convert::IntoSpec<VCell>>::into_spec(c) == c,
                ensures rest is Nil, b.len() >= 1,'''},
            'loop_count': 1,
            'inserts': [
                {'anchor': 'loop {', 'where': 'before', 'text': 'let ghost mut b: Seq<usize> = Seq::empty();'},
                {'loop_start': 0, 'text': 'let ghost h0 = vm.heap_spec(); let ghost t0 = tail; let ghost b0 = b; let ghost rest0 = rest;'},
                {'anchor': 'rest = vm.heap.get(&rest.as_cdr()?);', 'where': 'before', 'text': '''proof {
                        match rest0 { VCell::Pair(a, d) => {
                            lemma_plist_preserved(h0, vm.heap_spec(), t0, b0);
                            b = seq![a].add(b0);
                            assert(b.subrange(1, b.len() as int) =~= b0);
                            axiom_cow_cell_ref(&VCell::Ptr(d));
                            assert(lcell(old(vm).heap_spec(), list, b0.len()) == rest0);
                            assert forall|i: int| 0 <= i < b.len() implies ((#[trigger] lcell(old(vm).heap_spec(), list, (b.len() - 1 - i) as nat)) matches VCell::Pair(x, y) && x == b[i]) by {
                                if i > 0 { assert(b[i] == b0[i - 1]); assert((b.len() - 1 - i) as nat == (b0.len() - 1 - (i - 1)) as nat); }
                            }
                        } _ => {} }
                    }'''},
            ],
        },
        '::get_list_tail': {
            'props': L, 'requires': REQ,
            'attrs': '#[verifier::exec_allows_no_decreases_clause]',
            'ensures': [
                # success: the idx-th tail, reached through idx pairs; the machine is not touched
                (['C14'], 'r matches Ok(t) ==> t == tail_ptr(old(vm).heap_spec(), *list, idx as nat) && has_tails(old(vm).heap_spec(), *list, idx as nat)'),
                (['C14'], '*final(vm) == *old(vm)'),
            ],
            'loops': {0: '''invariant
                    rest_idx <= idx, *vm == *old(vm), vm.stack_spec().wf(),
                    rest == tail_ptr(vm.heap_spec(), *list, (idx - rest_idx) as nat),
                    has_tails(vm.heap_spec(), *list, (idx - rest_idx) as nat),'''},
            'loop_count': 1,
            'inserts': [{'loop_start': 0, 'text': 'proof { axiom_cow_cell_ref(&rest); }'}],
        },
        '::list_ref': {
            'props': L, 'requires': REQ,
            'ensures': [
                # element idx is the car of the idx-th tail: a pointer to the stored object itself
                (['C14'], '''r matches Ok(x) ==> (cell_index(old(vm).heap_spec(), arg(*old(vm), 1)) matches Some(i)
                    && (heap_deref(old(vm).heap_spec(), tail_ptr(old(vm).heap_spec(), arg(*old(vm), 2), i as nat)) matches VCell::Pair(a, d) && x == VCell::Ptr(a)
                        && has_tails(old(vm).heap_spec(), arg(*old(vm), 2), i as nat)))'''),
            ],
            'inserts': [{'anchor': 'match vm.heap.get(&tail) {', 'where': 'before', 'text': 'proof { axiom_cow_cell_ref(&tail); axiom_cow_cell_ref(&list_ptr); }'}],
        },
        '::list_tail': {
            'props': L, 'requires': REQ,
            'ensures': [
                (['C14'], '''r matches Ok(x) ==> (cell_index(old(vm).heap_spec(), arg(*old(vm), 1)) matches Some(i)
                    && x == tail_ptr(old(vm).heap_spec(), arg(*old(vm), 2), i as nat) && has_tails(old(vm).heap_spec(), arg(*old(vm), 2), i as nat))'''),
            ],
        },
    },
}]
