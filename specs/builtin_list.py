"""Unit `builtin_list`: marwood/src/vm/builtin/list.rs — pair accessors / mutators and list indexing (C14)."""

import os, sys
sys.path.insert(0, os.path.dirname(os.path.abspath(__file__)))
import importlib
import builtin as _b
importlib.reload(_b)
PRELUDE = r'''
use crate::vm::builtin::*;
use crate::vm::heap::Heap;
/// Heap::get_at_index_mut hands out one cell: everything else in the heap keeps its meaning
pub uninterp spec fn heap_len(h: Heap) -> nat;
/// (unit `heap` proves this model from the contract it verifies against the real body: same text over the concrete views)
pub open spec fn gim_model(h0: Heap, h1: Heap, p: usize, r0: VCell, r1: VCell) -> bool {
GIM_MODEL_BODY
}
pub assume_specification [Heap::get_at_index_mut] (h: &mut Heap, p: usize) -> (r: &mut VCell)
    requires (p as nat) < heap_len(*old(h)),
    ensures GIM_MODEL_INLINE;
/// std: `impl<T> From<T> for T` is the identity, hence so is `Into<VCell> for VCell`
#[verifier::external_body]
pub proof fn axiom_vcell_into_self_l()
    ensures <VCell as vstd::std_specs::convert::IntoSpec<VCell>>::obeys_into_spec(),
            forall|c: VCell| #[trigger] <VCell as vstd::std_specs::convert::IntoSpec<VCell>>::into_spec(c) == c {}
/// a pointer that dereferences to a pair is inside the heap (pairs live in cells)
#[verifier::external_body]
pub proof fn axiom_live_ptr(h: Heap, p: usize) ensures heap_deref(h, VCell::Ptr(p)) is Pair ==> (p as nat) < heap_len(h) {}
/// pointer to the j-th tail of the list `start` (start itself for j = 0), following cdr fields through heap h
pub open spec fn tail_ptr(h: Heap, start: VCell, j: nat) -> VCell decreases j {
    if j == 0 { start } else { match heap_deref(h, tail_ptr(h, start, (j - 1) as nat)) { VCell::Pair(a, d) => VCell::Ptr(d), _ => VCell::Undefined } }
}
/// j-th cell of the list whose first cell is `first` (already dereferenced), following cdr pointers through heap h
pub open spec fn lcell(h: Heap, first: VCell, j: nat) -> VCell decreases j {
    if j == 0 { first } else { match lcell(h, first, (j - 1) as nat) { VCell::Pair(a, d) => heap_deref(h, VCell::Ptr(d)), _ => VCell::Undefined } }
}
/// the list that starts at pointer `start` consists of allocated pairs whose car fields are exactly the pointers `ptrs`, and ends in ()
pub open spec fn plist(h: Heap, start: VCell, ptrs: Seq<usize>) -> bool decreases ptrs.len() {
    heap_live(h, start) && if ptrs.len() == 0 { heap_deref(h, start) is Nil } else {
        heap_deref(h, start) matches VCell::Pair(a, d) && a == ptrs[0] && plist(h, VCell::Ptr(d), ptrs.subrange(1, ptrs.len() as int))
    }
}
/// allocated cells stay allocated and keep their content
pub open spec fn heap_ext(h: Heap, h2: Heap) -> bool { forall|c: VCell| #[trigger] heap_live(h, c) ==> heap_live(h2, c) && heap_deref(h2, c) == heap_deref(h, c) }
pub proof fn lemma_plist_preserved(h: Heap, h2: Heap, start: VCell, ptrs: Seq<usize>)
    requires plist(h, start, ptrs), heap_ext(h, h2) ensures plist(h2, start, ptrs) decreases ptrs.len()
{
    if ptrs.len() > 0 { match heap_deref(h, start) { VCell::Pair(a, d) => { lemma_plist_preserved(h, h2, VCell::Ptr(d), ptrs.subrange(1, ptrs.len() as int)); } _ => {} } }
}
/// every cdr field along the list designates an allocated cell (a reachable list never points into free cells: collector soundness, C03)
pub open spec fn spine_live(h: Heap, first: VCell) -> bool { forall|j: nat| (#[trigger] lcell(h, first, j)) matches VCell::Pair(a, d) ==> heap_live(h, VCell::Ptr(d)) }
/// ptrs are the car fields of the first ptrs.len() pairs of the list, in reverse order, and the list ends there
pub open spec fn reversed_cars(h: Heap, first: VCell, ptrs: Seq<usize>) -> bool {
    &&& forall|i: int| 0 <= i < ptrs.len() ==> ((#[trigger] lcell(h, first, (ptrs.len() - 1 - i) as nat)) matches VCell::Pair(a, d) && a == ptrs[i])
}
/// a chain of allocated pairs: cell cells[i] holds Pair(cars[i], cells[i + 1]), the last one Pair(cars[n - 1], end); the cells are pairwise distinct
pub open spec fn chain(h: Heap, cells: Seq<usize>, cars: Seq<usize>, end: usize) -> bool {
    &&& cells.len() == cars.len()
    &&& forall|i: int| 0 <= i < cells.len() ==> heap_live(h, VCell::Ptr(#[trigger] cells[i]))
            && heap_deref(h, VCell::Ptr(cells[i])) == VCell::Pair(cars[i], if i + 1 < cells.len() { cells[i + 1] } else { end })
    &&& forall|i: int, j: int| 0 <= i < j < cells.len() ==> cells[i] != cells[j]
}
/// cars are the car fields of the first cars.len() pairs of the list whose first cell is `first`, and the list ends in () right there
pub open spec fn cars_of(h: Heap, first: VCell, cars: Seq<usize>) -> bool {
    &&& forall|i: int| 0 <= i < cars.len() ==> ((#[trigger] lcell(h, first, i as nat)) matches VCell::Pair(a, d) && a == cars[i])
    &&& lcell(h, first, cars.len()) is Nil
}
/// none of the cells was allocated in h
pub open spec fn all_fresh(h: Heap, cells: Seq<usize>) -> bool { forall|i: int| 0 <= i < cells.len() ==> !heap_live(h, VCell::Ptr(#[trigger] cells[i])) }
/// heap step "one cell allocated": cell p was free and now holds v, every allocated cell keeps content and liveness
pub open spec fn one_cell_added(h1: Heap, h2: Heap, p: usize, v: VCell) -> bool {
    &&& !heap_live(h1, VCell::Ptr(p)) && heap_live(h2, VCell::Ptr(p)) && heap_deref(h2, VCell::Ptr(p)) == v
    &&& forall|c: VCell| #[trigger] heap_live(h1, c) ==> heap_live(h2, c) && heap_deref(h2, c) == heap_deref(h1, c)
}
/// heap step "one cell overwritten": cell p now holds v, nothing else changes, liveness is untouched
pub open spec fn one_cell_changed(h1: Heap, h2: Heap, p: usize, v: VCell) -> bool { gim_model(h1, h2, p, heap_deref(h1, VCell::Ptr(p)), v) }
/// one iteration of clone_list: allocate the pair (a, nil) at pp, then hang it behind the previous last cell (if there is one)
pub proof fn lemma_clone_step(h0: Heap, h_in: Heap, h_put: Heap, h: Heap, c0: Seq<usize>, a0: Seq<usize>, nil: usize, pp: usize, a: usize)
    requires
        chain(h_in, c0, a0, nil), all_fresh(h0, c0), forall|i: int| 0 <= i < c0.len() ==> c0[i] != nil, heap_ext(h0, h_in),
        heap_live(h_in, VCell::Ptr(nil)), heap_deref(h_in, VCell::Ptr(nil)) is Nil, !heap_live(h0, VCell::Ptr(nil)),
        one_cell_added(h_in, h_put, pp, VCell::Pair(a, nil)),
        c0.len() == 0 ==> h == h_put,
        c0.len() > 0 ==> one_cell_changed(h_put, h, c0[c0.len() - 1], VCell::Pair(a0[a0.len() - 1], pp)),
    ensures
        chain(h, c0.push(pp), a0.push(a), nil), all_fresh(h0, c0.push(pp)), forall|i: int| 0 <= i < c0.push(pp).len() ==> c0.push(pp)[i] != nil,
        heap_ext(h0, h), heap_live(h, VCell::Ptr(nil)), heap_deref(h, VCell::Ptr(nil)) is Nil,
{
    let c1 = c0.push(pp); let a1 = a0.push(a); let n = c0.len() as int;
    // the new cell is distinct from every old cell and from the () cell (they were allocated, it was not)
    assert forall|i: int| 0 <= i < n implies c0[i] != pp by { assert(heap_live(h_in, VCell::Ptr(c0[i]))); }
    assert(pp != nil);
    assert(!heap_live(h0, VCell::Ptr(pp))) by { if heap_live(h0, VCell::Ptr(pp)) { assert(heap_live(h_in, VCell::Ptr(pp))); } }
    assert forall|i: int| 0 <= i < c1.len() implies heap_live(h, VCell::Ptr(#[trigger] c1[i]))
        && heap_deref(h, VCell::Ptr(c1[i])) == VCell::Pair(a1[i], if i + 1 < c1.len() { c1[i + 1] } else { nil }) by {
        if i < n {
            assert(c1[i] == c0[i] && a1[i] == a0[i]);
            assert(heap_live(h_in, VCell::Ptr(c0[i])));
            assert(heap_deref(h_put, VCell::Ptr(c0[i])) == heap_deref(h_in, VCell::Ptr(c0[i])));
            if i + 1 < n { assert(c1[i + 1] == c0[i + 1]); assert(c0[i] != c0[n - 1]); } else { assert(c1[i + 1] == pp); }
        } else { assert(c1[i] == pp && a1[i] == a); if n > 0 { assert(pp != c0[n - 1]); } }
    }
    assert forall|i: int, j: int| 0 <= i < j < c1.len() implies c1[i] != c1[j] by { if j < n { assert(c1[i] == c0[i] && c1[j] == c0[j]); } else { assert(c1[j] == pp); assert(c1[i] == c0[i]); } }
    assert forall|i: int| 0 <= i < c1.len() implies !heap_live(h0, VCell::Ptr(#[trigger] c1[i])) by { if i < n { assert(c1[i] == c0[i]); } }
    assert forall|i: int| 0 <= i < c1.len() implies c1[i] != nil by { if i < n { assert(c1[i] == c0[i]); } }
    assert forall|c: VCell| #[trigger] heap_live(h0, c) implies heap_live(h, c) && heap_deref(h, c) == heap_deref(h0, c) by {
        assert(heap_live(h_in, c) && heap_deref(h_in, c) == heap_deref(h0, c));
        assert(c != VCell::Ptr(pp));
        assert(heap_live(h_put, c) && heap_deref(h_put, c) == heap_deref(h_in, c));
        if n > 0 {
            assert(heap_live(h, c) == heap_live(h_put, c));
            match c {
                VCell::Ptr(q) => { assert(!heap_live(h0, VCell::Ptr(c0[n - 1]))); assert(q != c0[n - 1]); assert(heap_deref(h, VCell::Ptr(q)) == heap_deref(h_put, VCell::Ptr(q))); }
                _ => { assert(heap_deref(h, c) == heap_deref(h_put, c)); }
            }
        }
    }
    if n > 0 { assert(c0[n - 1] != nil); }
}
/// what clone_list answers: a fresh chain, as long as the argument, with the argument's very car fields, ending in a fresh () cell;
/// head and tail point at its first and last pair
pub open spec fn cloned(h0: Heap, h1: Heap, list: VCell, head: VCell, tl: VCell, cells: Seq<usize>, cars: Seq<usize>, nilp: usize) -> bool {
    &&& cars.len() >= 1 && chain(h1, cells, cars, nilp) && cars_of(h0, list, cars)
    &&& heap_live(h1, VCell::Ptr(nilp)) && heap_deref(h1, VCell::Ptr(nilp)) is Nil && !heap_live(h0, VCell::Ptr(nilp))
    &&& head == VCell::Ptr(cells[0]) && tl == VCell::Ptr(cells[cells.len() - 1])
    &&& all_fresh(h0, cells) && heap_ext(h0, h1)
}
/// from `start`, cars.len() allocated pairs with the car fields `cars` lead to the very cell `end`
pub open spec fn leads(h: Heap, start: VCell, cars: Seq<usize>, end: VCell) -> bool decreases cars.len() {
    if cars.len() == 0 { start == end } else {
        heap_live(h, start) && (heap_deref(h, start) matches VCell::Pair(a, d) && a == cars[0] && leads(h, VCell::Ptr(d), cars.subrange(1, cars.len() as int), end))
    }
}
pub proof fn lemma_leads_preserved(h: Heap, h2: Heap, start: VCell, cars: Seq<usize>, end: VCell)
    requires leads(h, start, cars, end), heap_ext(h, h2) ensures leads(h2, start, cars, end) decreases cars.len()
{
    if cars.len() > 0 { match heap_deref(h, start) { VCell::Pair(a, d) => { lemma_leads_preserved(h, h2, VCell::Ptr(d), cars.subrange(1, cars.len() as int), end); } _ => {} } }
}
pub proof fn lemma_leads_concat(h: Heap, a: VCell, c1: Seq<usize>, b: VCell, c2: Seq<usize>, e: VCell)
    requires leads(h, a, c1, b), leads(h, b, c2, e) ensures leads(h, a, c1 + c2, e) decreases c1.len()
{
    if c1.len() == 0 { assert(c1 + c2 =~= c2); } else {
        match heap_deref(h, a) { VCell::Pair(x, d) => {
            lemma_leads_concat(h, VCell::Ptr(d), c1.subrange(1, c1.len() as int), b, c2, e);
            assert((c1 + c2).subrange(1, (c1 + c2).len() as int) =~= c1.subrange(1, c1.len() as int) + c2);
            assert((c1 + c2)[0] == c1[0]);
        } _ => {} }
    }
}
/// the links of a chain (without the distinctness of its cells)
pub open spec fn links(h: Heap, cells: Seq<usize>, cars: Seq<usize>, endp: usize) -> bool {
    &&& cells.len() == cars.len()
    &&& forall|i: int| 0 <= i < cells.len() ==> heap_live(h, VCell::Ptr(cells[i]))
            && heap_deref(h, VCell::Ptr(cells[i])) == VCell::Pair(#[trigger] cars[i], if i + 1 < cells.len() { cells[i + 1] } else { endp })
}
/// a chain is a path: from its k-th cell the remaining car fields lead to its end
pub proof fn lemma_chain_leads(h: Heap, cells: Seq<usize>, cars: Seq<usize>, endp: usize, k: int)
    requires links(h, cells, cars, endp), 0 <= k <= cells.len(),
    ensures leads(h, if k < cells.len() { VCell::Ptr(cells[k]) } else { VCell::Ptr(endp) }, cars.subrange(k, cars.len() as int), VCell::Ptr(endp))
    decreases cells.len() - k
{
    if k < cells.len() {
        lemma_chain_leads(h, cells, cars, endp, k + 1);
        let rest = cars.subrange(k, cars.len() as int);
        assert(rest.subrange(1, rest.len() as int) =~= cars.subrange(k + 1, cars.len() as int));
        assert(rest[0] == cars[k]);
        assert(heap_live(h, VCell::Ptr(cells[k])));
        assert(heap_deref(h, VCell::Ptr(cells[k])) == VCell::Pair(cars[k], if k + 1 < cells.len() { cells[k + 1] } else { endp }));
    }
}
/// cells of a list with a live spine read the same in an extended heap
pub proof fn lemma_lcell_same(h: Heap, h2: Heap, first: VCell, j: nat)
    requires spine_live(h, first), heap_ext(h, h2) ensures lcell(h2, first, j) == lcell(h, first, j) decreases j
{
    if j > 0 { lemma_lcell_same(h, h2, first, (j - 1) as nat); match lcell(h, first, (j - 1) as nat) { VCell::Pair(a, d) => { assert(heap_live(h, VCell::Ptr(d))); } _ => {} } }
}
pub proof fn lemma_spine_live_preserved(h: Heap, h2: Heap, first: VCell)
    requires spine_live(h, first), heap_ext(h, h2) ensures spine_live(h2, first)
{
    assert forall|j: nat| ((#[trigger] lcell(h2, first, j)) matches VCell::Pair(a, d) ==> heap_live(h2, VCell::Ptr(d))) by {
        lemma_lcell_same(h, h2, first, j);
        match lcell(h, first, j) { VCell::Pair(a, d) => { assert(heap_live(h, VCell::Ptr(d))); } _ => {} }
    }
}
pub proof fn lemma_cars_of_same(h: Heap, h2: Heap, first: VCell, cars: Seq<usize>)
    requires spine_live(h, first), heap_ext(h, h2), cars_of(h2, first, cars) ensures cars_of(h, first, cars)
{
    assert forall|i: int| 0 <= i < cars.len() implies ((#[trigger] lcell(h, first, i as nat)) matches VCell::Pair(a, d) && a == cars[i]) by { lemma_lcell_same(h, h2, first, i as nat); }
    lemma_lcell_same(h, h2, first, cars.len());
}
/// a proper list has one sequence of car fields
pub proof fn lemma_cars_unique(h: Heap, first: VCell, c1: Seq<usize>, c2: Seq<usize>)
    requires cars_of(h, first, c1), cars_of(h, first, c2) ensures c1 == c2
{
    if c1.len() < c2.len() { let i = c1.len() as int; assert(lcell(h, first, i as nat) is Pair); assert(lcell(h, first, c1.len()) is Nil); }
    if c2.len() < c1.len() { let i = c2.len() as int; assert(lcell(h, first, i as nat) is Pair); assert(lcell(h, first, c2.len()) is Nil); }
    assert forall|i: int| 0 <= i < c1.len() implies c1[i] == c2[i] by { let x = lcell(h, first, i as nat); assert(x matches VCell::Pair(a, d) && a == c1[i]); assert(x matches VCell::Pair(a, d) && a == c2[i]); }
    assert(c1 =~= c2);
}
/// Heap::get answers a cell that is not a pointer with that very cell (heap.rs: `_ => vcell`); unit `heap` has the same fact over
/// its concrete view m_deref by definition
#[verifier::external_body]
pub proof fn axiom_deref_immediate(h: Heap, c: VCell) ensures !(c is Ptr) ==> heap_deref(h, c) == c {}
/// the car fields of a proper list, as a function (any sequence satisfying cars_of is this one: lemma_cars_unique)
pub open spec fn cars_fn(h: Heap, first: VCell) -> Seq<usize> { choose|c: Seq<usize>| cars_of(h, first, c) }
pub proof fn lemma_cars_fn(h: Heap, first: VCell, c: Seq<usize>) requires cars_of(h, first, c) ensures cars_fn(h, first) == c {
    lemma_cars_unique(h, first, cars_fn(h, first), c);
}
/// the car fields of the arguments m+1, m, .., 2 of an `append` call (stack order: argument 1 is the last one), concatenated in call order
pub open spec fn app_cars(h: Heap, vm: Vm, m: nat) -> Seq<usize> decreases m {
    if m == 0 { Seq::empty() } else { cars_fn(h, heap_deref(h, arg(vm, m as int + 1))) + app_cars(h, vm, (m - 1) as nat) }
}
pub open spec fn argc_is(vm: Vm, n: usize) -> bool { arg(vm, 0) == VCell::ArgumentCount(n) }
/// the arguments 2..=n of an `append` call are () or proper lists
pub open spec fn proper_args(h: Heap, vm: Vm, n: int) -> bool {
    forall|i: int| 2 <= i <= n ==> (#[trigger] heap_deref(h, arg(vm, i))) is Nil || exists|c: Seq<usize>| cars_of(h, heap_deref(h, arg(vm, i)), c)
}
/// declared although list.rs does not call it (a change that did would be decided, not refused)
pub assume_specification [Cell::is_list] (c: &Cell) -> (r: bool);
/// std: `impl From<VCell> for Cow<VCell>` is Cow::Owned
#[verifier::external_body]
pub proof fn axiom_cow_cell_val(c: VCell) ensures cow_cell::<VCell>(c) == c {}
/// the first j tails all are pairs (so the j-th tail exists)
pub open spec fn has_tails(h: Heap, start: VCell, j: nat) -> bool { forall|i: nat| i < j ==> #[trigger] heap_deref(h, tail_ptr(h, start, i)) is Pair }
'''

PRELUDE = PRELUDE.replace('GIM_MODEL_INLINE', _b.inline_model(_b.GIM_MODEL_TEMPLATE, {'DEREF': 'heap_deref', 'LIVE': 'heap_live', 'LEN': 'heap_len'}, {'h0': '*old(h)', 'h1': '*final(h)', 'r0': '*r', 'r1': '*final(r)'}))
PRELUDE = PRELUDE.replace('GIM_MODEL_BODY', _b.GIM_MODEL_TEMPLATE.replace('DEREF', 'heap_deref').replace('LIVE', 'heap_live').replace('LEN', 'heap_len'))
L = ['C14', 'C06']
REQ = ['old(vm).stack_spec().wf()']
UNITS = [{
    'name': 'builtin_list',
    'file': 'src/vm/builtin/list.rs',
    'uses_types': ['VCell', 'Error', 'Heap', 'Cell'],
    'prelude': PRELUDE,
    'fns': {
        '::car': {
            'props': L, 'requires': REQ,
            'body_start': 'proof { if old(vm).stack_spec().sp_spec() > 1 { axiom_cow_cell_ref(&arg(*old(vm), 1)); } }',
            'ensures': [
                # the car field itself (a pointer to the same object), an error for a non-pair
                (['C14'], 'r matches Ok(x) ==> (heap_deref(old(vm).heap_spec(), arg(*old(vm), 1)) matches VCell::Pair(a, d) && x == VCell::Ptr(a))'),
                (['C14'], '(r is Err && old(vm).stack_spec().sp_spec() >= 2 && arg(*old(vm), 0) == VCell::ArgumentCount(1)) ==> !(heap_deref(old(vm).heap_spec(), arg(*old(vm), 1)) is Pair)'),
            ],
        },
        '::cdr': {
            'props': L, 'requires': REQ,
            'body_start': 'proof { if old(vm).stack_spec().sp_spec() > 1 { axiom_cow_cell_ref(&arg(*old(vm), 1)); } }',
            'ensures': [
                (['C14'], 'r matches Ok(x) ==> (heap_deref(old(vm).heap_spec(), arg(*old(vm), 1)) matches VCell::Pair(a, d) && x == VCell::Ptr(d))'),
                (['C14'], '(r is Err && old(vm).stack_spec().sp_spec() >= 2 && arg(*old(vm), 0) == VCell::ArgumentCount(1)) ==> !(heap_deref(old(vm).heap_spec(), arg(*old(vm), 1)) is Pair)'),
            ],
        },
        '::cons': {
            'props': L, 'requires': REQ,
            'body_start': 'proof { axiom_vcell_into_self_l(); }',
            'ensures': [
                # a pair whose fields designate the two argument objects themselves (a pointer argument is kept, not copied)
                (['C14'], '''r matches Ok(x) ==> (x matches VCell::Pair(a, d)
                    && (arg(*old(vm), 2) matches VCell::Ptr(p) ==> a == p) && (arg(*old(vm), 1) matches VCell::Ptr(p) ==> d == p)
                    && (!(arg(*old(vm), 2) is Ptr) ==> heap_deref(final(vm).heap_spec(), VCell::Ptr(a)) == arg(*old(vm), 2))
                    && (!(arg(*old(vm), 1) is Ptr) ==> heap_deref(final(vm).heap_spec(), VCell::Ptr(d)) == arg(*old(vm), 1)))'''),
            ],
        },
        '::set_car': {
            'props': L, 'requires': REQ,
            'body_start': 'proof { axiom_vcell_into_self_l(); }',
            'ensures': [
                # the addressed pair gets the new car (the argument object itself) and keeps its cdr; no other pair changes
                (['C14'], '''(r is Ok && heap_live(old(vm).heap_spec(), arg(*old(vm), 2))) ==> (arg(*old(vm), 2) matches VCell::Ptr(p) && (heap_deref(old(vm).heap_spec(), VCell::Ptr(p)) matches VCell::Pair(a0, d0)
                    && (heap_deref(final(vm).heap_spec(), VCell::Ptr(p)) matches VCell::Pair(a1, d1) && d1 == d0
                        && (arg(*old(vm), 1) matches VCell::Ptr(o) ==> a1 == o)
                        && (!(arg(*old(vm), 1) is Ptr) ==> heap_deref(final(vm).heap_spec(), VCell::Ptr(a1)) == arg(*old(vm), 1)))))'''),
                (['C14'], '''r is Ok ==> (arg(*old(vm), 2) matches VCell::Ptr(p) && forall|q: usize| q != p && heap_live(old(vm).heap_spec(), VCell::Ptr(q))
                    ==> #[trigger] heap_deref(final(vm).heap_spec(), VCell::Ptr(q)) == heap_deref(old(vm).heap_spec(), VCell::Ptr(q)))'''),
            ],
            'inserts': [{'anchor': '*vm.heap.get_at_index_mut(pair.as_ptr()?) = new_pair;', 'where': 'before',
                         'text': 'proof { axiom_cow_cell_ref(&pair); match pair { VCell::Ptr(pp) => { axiom_live_ptr(vm.heap_spec(), pp); } _ => {} } }'}],
        },
        '::set_cdr': {
            'props': L, 'requires': REQ,
            'body_start': 'proof { axiom_vcell_into_self_l(); }',
            'ensures': [
                (['C14'], '''(r is Ok && heap_live(old(vm).heap_spec(), arg(*old(vm), 2))) ==> (arg(*old(vm), 2) matches VCell::Ptr(p) && (heap_deref(old(vm).heap_spec(), VCell::Ptr(p)) matches VCell::Pair(a0, d0)
                    && (heap_deref(final(vm).heap_spec(), VCell::Ptr(p)) matches VCell::Pair(a1, d1) && a1 == a0
                        && (arg(*old(vm), 1) matches VCell::Ptr(o) ==> d1 == o)
                        && (!(arg(*old(vm), 1) is Ptr) ==> heap_deref(final(vm).heap_spec(), VCell::Ptr(d1)) == arg(*old(vm), 1)))))'''),
                (['C14'], '''r is Ok ==> (arg(*old(vm), 2) matches VCell::Ptr(p) && forall|q: usize| q != p && heap_live(old(vm).heap_spec(), VCell::Ptr(q))
                    ==> #[trigger] heap_deref(final(vm).heap_spec(), VCell::Ptr(q)) == heap_deref(old(vm).heap_spec(), VCell::Ptr(q)))'''),
            ],
            'inserts': [{'anchor': '*vm.heap.get_at_index_mut(pair.as_ptr()?) = new_pair;', 'where': 'before',
                         'text': 'proof { axiom_cow_cell_ref(&pair); match pair { VCell::Ptr(pp) => { axiom_live_ptr(vm.heap_spec(), pp); } _ => {} } }'}],
        },
        # append itself is not ingestible (Verus: `for-loops do not yet support continue`); its list-copying helper is verified
        '::clone_list': {
            'props': L,
            'loop_isolation': True,
            'attrs': '#[verifier::exec_allows_no_decreases_clause]\n#[verifier::rlimit(40)]',
            'requires': REQ + ['spine_live(old(vm).heap_spec(), list)'],
            'body_start': 'proof { axiom_vcell_into_self_l(); }',
            'ensures': [
                (['C14'], '''r matches Ok((hd, tl)) ==> exists|cells: Seq<usize>, cars: Seq<usize>, nilp: usize| #[trigger] cloned(old(vm).heap_spec(), final(vm).heap_spec(), list, hd, tl, cells, cars, nilp)'''),
                (['C14'], 'final(vm).stack_spec() == old(vm).stack_spec()'),
            ],
            'loops': {0: '''invariant_except_break rest is Pair,
                invariant
                    vm.stack_spec() == old(vm).stack_spec(), spine_live(old(vm).heap_spec(), list), heap_ext(old(vm).heap_spec(), vm.heap_spec()),
                    <VCell as vstd::std_specs::convert::IntoSpec<VCell>>::obeys_into_spec(), forall|c: VCell| #[trigger] <VCell as vstd::std_specs::convert::IntoSpec<VCell>>::into_spec(c) == c,
                    heap_live(vm.heap_spec(), VCell::Ptr(nil)) && heap_deref(vm.heap_spec(), VCell::Ptr(nil)) is Nil && !heap_live(old(vm).heap_spec(), VCell::Ptr(nil)),
                    chain(vm.heap_spec(), gcells, gcars, nil), all_fresh(old(vm).heap_spec(), gcells),
                    forall|i: int| 0 <= i < gcells.len() ==> gcells[i] != nil,
                    forall|i: int| 0 <= i < gcars.len() ==> ((#[trigger] lcell(old(vm).heap_spec(), list, i as nat)) matches VCell::Pair(a, d) && a == gcars[i]),
                    rest == lcell(old(vm).heap_spec(), list, gcars.len()),
                    gcells.len() == 0 ==> head is Nil && tail is Nil,
                    gcells.len() > 0 ==> head == VCell::Ptr(gcells[0]) && tail == VCell::Ptr(gcells[gcells.len() - 1]),'''},
            'loop_count': 1,
            'inserts': [
                {'anchor': 'loop {', 'where': 'before', 'text': 'let ghost mut gcells: Seq<usize> = Seq::empty(); let ghost mut gcars: Seq<usize> = Seq::empty();'},
                {'loop_start': 0, 'text': 'let ghost h_in = vm.heap_spec(); let ghost c0 = gcells; let ghost a0 = gcars; let ghost rest0 = rest;'},
                {'anchor': 'if head.is_nil() {', 'where': 'before', 'text': '''let ghost gp = pair; let ghost h_put = vm.heap_spec();
                    proof { match (rest0, gp) { (VCell::Pair(a, d), VCell::Ptr(pp)) => { assert(put_model(h_in, h_put, VCell::Pair(a, nil), gp)); assert(one_cell_added(h_in, h_put, pp, VCell::Pair(a, nil))); } _ => {} } }'''},
                {'anchor': 'let last_pair = vm.heap.get(&tail);', 'where': 'after', 'text': 'proof { axiom_cow_cell_ref(&tail); match tail { VCell::Ptr(tp) => { axiom_live_ptr(vm.heap_spec(), tp); } _ => {} } }'},
                {'anchor': 'return Ok((head, tail));', 'where': 'before', 'text': '''proof {
                        assert(chain(vm.heap_spec(), gcells, gcars, nil));
                        assert(cars_of(old(vm).heap_spec(), list, gcars));
                        assert(all_fresh(old(vm).heap_spec(), gcells));
                        assert(heap_ext(old(vm).heap_spec(), vm.heap_spec()));
                        assert(head == VCell::Ptr(gcells[0]) && tail == VCell::Ptr(gcells[gcells.len() - 1]));
                        assert(cloned(old(vm).heap_spec(), vm.heap_spec(), list, head, tail, gcells, gcars, nil));
                        assert(exists|cells: Seq<usize>, cars: Seq<usize>, nilp: usize| #[trigger] cloned(old(vm).heap_spec(), vm.heap_spec(), list, head, tail, cells, cars, nilp));
                    }'''},
                {'anchor': 'rest = vm.heap.get(&rest.as_cdr()?);', 'where': 'before', 'text': '''proof {
                        match (rest0, gp) { (VCell::Pair(a, d), VCell::Ptr(pp)) => {
                            lemma_clone_step(old(vm).heap_spec(), h_in, h_put, vm.heap_spec(), c0, a0, nil, pp, a);
                            gcells = c0.push(pp); gcars = a0.push(a);
                            axiom_cow_cell_ref(&VCell::Ptr(d));
                            assert(lcell(old(vm).heap_spec(), list, a0.len()) == rest0);
                        } _ => {} }
                    }'''},
            ],
        },
        '::reverse': {
            'props': L,
            'loop_isolation': True,  # `loop` with break: invariant_except_break
            'attrs': '#[verifier::exec_allows_no_decreases_clause]',
            'requires': REQ + ['old(vm).stack_spec().sp_spec() > 1 ==> spine_live(old(vm).heap_spec(), heap_deref(old(vm).heap_spec(), arg(*old(vm), 1)))'],
            'body_start': 'proof { axiom_vcell_into_self_l(); if old(vm).stack_spec().sp_spec() > 1 { axiom_cow_cell_ref(&arg(*old(vm), 1)); } }',
            'ensures': [
                # () for (); otherwise a fresh list of allocated pairs whose cars are the very cars of the argument's pairs in reverse order,
                # as long as the argument; no allocated cell is changed (the argument list is intact)
                (['C14'], '''r matches Ok(t) ==> ({
                    let first = heap_deref(old(vm).heap_spec(), arg(*old(vm), 1));
                    &&& first is Nil ==> t == first
                    &&& first is Pair ==> exists|ptrs: Seq<usize>| #[trigger] plist(final(vm).heap_spec(), t, ptrs) && ptrs.len() >= 1
                            && reversed_cars(old(vm).heap_spec(), first, ptrs) && lcell(old(vm).heap_spec(), first, ptrs.len()) is Nil
                    &&& heap_ext(old(vm).heap_spec(), final(vm).heap_spec())
                })'''),
            ],
            'loops': {0: '''invariant_except_break rest is Pair,
                invariant
                    tail is Ptr, heap_ext(old(vm).heap_spec(), vm.heap_spec()), plist(vm.heap_spec(), tail, b),
                    list == heap_deref(old(vm).heap_spec(), arg(*old(vm), 1)), spine_live(old(vm).heap_spec(), list),
                    reversed_cars(old(vm).heap_spec(), list, b), rest == lcell(old(vm).heap_spec(), list, b.len()),
                    <VCell as vstd::std_specs::convert::IntoSpec<VCell>>::obeys_into_spec(), forall|c: VCell| #[trigger] <VCell as vstd::std_specs::convert::IntoSpec<VCell>>::into_spec(c) == c,
                ensures rest is Nil, b.len() >= 1,'''},
            'loop_count': 1,
            'inserts': [
                {'anchor': 'loop {', 'where': 'before', 'text': 'let ghost mut b: Seq<usize> = Seq::empty();'},
                {'loop_start': 0, 'text': 'let ghost h0 = vm.heap_spec(); let ghost t0 = tail; let ghost b0 = b; let ghost rest0 = rest;'},
                {'anchor': 'rest = vm.heap.get(&rest.as_cdr()?);', 'where': 'before', 'text': '''proof {
                        match rest0 { VCell::Pair(a, d) => {
                            lemma_plist_preserved(h0, vm.heap_spec(), t0, b0);
                            b = seq![a].add(b0);
                            assert(b.subrange(1, b.len() as int) =~= b0);
                            axiom_cow_cell_ref(&VCell::Ptr(d));
                            assert(lcell(old(vm).heap_spec(), list, b0.len()) == rest0);
                            assert forall|i: int| 0 <= i < b.len() implies ((#[trigger] lcell(old(vm).heap_spec(), list, (b.len() - 1 - i) as nat)) matches VCell::Pair(x, y) && x == b[i]) by {
                                if i > 0 { assert(b[i] == b0[i - 1]); assert((b.len() - 1 - i) as nat == (b0.len() - 1 - (i - 1)) as nat); }
                            }
                        } _ => {} }
                    }'''},
            ],
        },
        # (append l1 .. ln): every argument but the last is copied (clone_list), the copies are chained, the last argument is shared.
        # `for _ in 0..(argc - 1)` with a `continue` inside: pre-rewritten into the equivalent `while` loop (Verus: no `continue` in `for`)
        '::append': {
            'props': L,
            'pre_rewrites': ['for_range_while'],
            'attrs': '#[verifier::exec_allows_no_decreases_clause]',
            'requires': REQ + [
                # what collector soundness gives for reachable data: arguments designate allocated cells, list spines point at allocated cells
                'forall|i: int| 1 <= i <= old(vm).stack_spec().sp_spec() ==> ((#[trigger] arg(*old(vm), i)) is Ptr ==> heap_live(old(vm).heap_spec(), arg(*old(vm), i)))',
                'forall|i: int| 2 <= i <= old(vm).stack_spec().sp_spec() ==> spine_live(old(vm).heap_spec(), heap_deref(old(vm).heap_spec(), #[trigger] arg(*old(vm), i)))'],
            'body_start': 'proof { axiom_vcell_into_self_l(); } let ghost h0 = vm.heap_spec(); let ghost s0 = vm.stack_spec(); let ghost mut acc: Seq<usize> = Seq::empty(); let ghost mut tail0 = VCell::Undefined;',
            'ensures': [
                # no allocated cell is changed: the arguments are intact
                (['C14'], 'r is Ok ==> heap_ext(old(vm).heap_spec(), final(vm).heap_spec())'),
                # one argument: the argument itself
                (['C14'], 'r matches Ok(t) ==> (arg(*old(vm), 0) == VCell::ArgumentCount(1) && arg(*old(vm), 1) is Ptr ==> t == arg(*old(vm), 1))'),
                # two arguments: () in front gives the second argument itself; otherwise as many fresh pairs as the first list has, with the
                # very car fields of the first list, leading to the second argument itself (shared, not copied)
                (['C14'], '''r matches Ok(t) ==> (arg(*old(vm), 0) == VCell::ArgumentCount(2) && arg(*old(vm), 1) is Ptr ==> ({
                    let first = heap_deref(old(vm).heap_spec(), arg(*old(vm), 2));
                    &&& first is Nil ==> t == arg(*old(vm), 1)
                    &&& first is Pair ==> forall|cars: Seq<usize>| #[trigger] cars_of(old(vm).heap_spec(), first, cars) ==> leads(final(vm).heap_spec(), t, cars, arg(*old(vm), 1))
                }))'''),
                # any number of arguments, each but the last a proper list or (): the result is a path of allocated pairs whose car fields are
                # those of the arguments in call order, ending in the last argument itself
                (['C14'], '''r matches Ok(t) ==> forall|n: usize| (#[trigger] argc_is(*old(vm), n) && n >= 1 && arg(*old(vm), 1) is Ptr
                    && proper_args(old(vm).heap_spec(), *old(vm), n as int))
                    ==> leads(final(vm).heap_spec(), t, app_cars(old(vm).heap_spec(), *old(vm), (n - 1) as nat), arg(*old(vm), 1))'''),
            ],
            'loops': {0: '''invariant
                    vm.stack_spec().wf(), heap_ext(h0, vm.heap_spec()), vm.stack_spec().cells() == s0.cells(), s0 == old(vm).stack_spec(), h0 == old(vm).heap_spec(),
                    s0.sp_spec() >= 2, vm.stack_spec().sp_spec() + __k + 2 == s0.sp_spec(), __n == argc - 1, __k <= __n, arg(*old(vm), 0) == VCell::ArgumentCount(argc),
                    <VCell as vstd::std_specs::convert::IntoSpec<VCell>>::obeys_into_spec(), forall|c: VCell| #[trigger] <VCell as vstd::std_specs::convert::IntoSpec<VCell>>::into_spec(c) == c,
                    forall|i: int| 1 <= i <= s0.sp_spec() ==> ((#[trigger] arg(*old(vm), i)) is Ptr ==> heap_live(h0, arg(*old(vm), i))),
                    forall|i: int| 2 <= i <= s0.sp_spec() ==> spine_live(h0, heap_deref(h0, #[trigger] arg(*old(vm), i))),
                    arg(*old(vm), 1) is Ptr ==> tail0 == arg(*old(vm), 1),
                    leads(vm.heap_spec(), tail, acc, tail0),
                    __k == 0 ==> acc.len() == 0,
                    proper_args(h0, *old(vm), argc as int) ==> acc == app_cars(h0, *old(vm), __k as nat),
                    (__k == 1 && heap_deref(h0, arg(*old(vm), 2)) is Nil) ==> acc.len() == 0,
                    (__k == 1 && heap_deref(h0, arg(*old(vm), 2)) is Pair) ==> cars_of(h0, heap_deref(h0, arg(*old(vm), 2)), acc),'''},
            'loop_count': 1,
            'inserts': [
                # right before the loop (the text the pre-rewrite for_range_while generates)
                {'anchor': '{ let mut __k: usize = 0;', 'where': 'before', 'text': 'proof { tail0 = tail; }'},
                {'anchor': 'Ok(tail)', 'where': 'before', 'text': '''proof {
                        let first = heap_deref(h0, arg(*old(vm), 2));
                        if argc == 2 && first is Pair {
                            assert forall|cars: Seq<usize>| #[trigger] cars_of(h0, first, cars) implies leads(vm.heap_spec(), tail, cars, tail0) by { lemma_cars_unique(h0, first, cars, acc); }
                        }
                    }'''},
                {'loop_start': 0, 'text': 'let ghost hb = vm.heap_spec(); let ghost tail_b = tail; let ghost acc_b = acc; let ghost kb = __k;'},
                {'anchor': 'let list = vm.heap.get(vm.stack.pop()?.clone());', 'where': 'after', 'text': '''proof {
                        let a = arg(*old(vm), kb as int + 2);
                        axiom_cow_cell_val(a);
                        assert(list == heap_deref(hb, a));
                        axiom_deref_immediate(hb, a); axiom_deref_immediate(h0, a);
                        assert(heap_deref(hb, a) == heap_deref(h0, a));
                        lemma_spine_live_preserved(h0, hb, list);
                    }'''},
                {'anchor': 'continue;', 'where': 'before', 'text': '''proof {
                        // () contributes no car fields
                        assert(cars_of(h0, list, Seq::<usize>::empty()));
                        lemma_cars_fn(h0, list, Seq::<usize>::empty());
                        assert(app_cars(h0, *old(vm), (kb + 1) as nat) =~= Seq::<usize>::empty() + app_cars(h0, *old(vm), kb as nat));
                    }'''},
                {'anchor': 'let (head, sub_tail) = clone_list(vm, list)?;', 'where': 'after', 'text': '''let ghost hc = vm.heap_spec();
                    let ghost (gcells, gcars, gnil) = choose|cells: Seq<usize>, cars: Seq<usize>, nilp: usize| #[trigger] cloned(hb, hc, list, head, sub_tail, cells, cars, nilp);
                    proof { axiom_cow_cell_ref(&sub_tail); axiom_live_ptr(hc, gcells[gcells.len() - 1]); }'''},
                {'anchor': 'tail = head;', 'where': 'before', 'text': '''proof {
                        let hp = vm.heap_spec(); let n = gcells.len() as int; let last = gcells[n - 1];
                        match tail_b { VCell::Ptr(tp) => {
                            // the patched cell is fresh relative to hb: everything allocated before this round is intact
                            assert forall|c: VCell| #[trigger] heap_live(hb, c) implies heap_live(hp, c) && heap_deref(hp, c) == heap_deref(hb, c) by {
                                assert(heap_live(hc, c) && heap_deref(hc, c) == heap_deref(hb, c));
                                assert(sub_tail == VCell::Ptr(last));
                                assert(heap_live(hp, c) == heap_live(hc, c));
                                match c { VCell::Ptr(q) => { assert(!heap_live(hb, VCell::Ptr(last))); assert(q != last); assert(heap_deref(hp, VCell::Ptr(q)) == heap_deref(hc, VCell::Ptr(q))); } _ => { assert(heap_deref(hp, c) == heap_deref(hc, c)); } }
                            }
                            assert(links(hp, gcells, gcars, tp)) by {
                                assert forall|i: int| 0 <= i < n implies heap_live(hp, VCell::Ptr(gcells[i]))
                                    && heap_deref(hp, VCell::Ptr(gcells[i])) == VCell::Pair(#[trigger] gcars[i], if i + 1 < n { gcells[i + 1] } else { tp }) by {
                                    assert(heap_live(hc, VCell::Ptr(gcells[i])));
                                    assert(heap_deref(hc, VCell::Ptr(gcells[i])) == VCell::Pair(gcars[i], if i + 1 < n { gcells[i + 1] } else { gnil }));
                                    if i < n - 1 { assert(gcells[i] != last); }
                                }
                            }
                            lemma_chain_leads(hp, gcells, gcars, tp, 0);
                            assert(gcars.subrange(0, gcars.len() as int) =~= gcars);
                            lemma_leads_preserved(hb, hp, tail_b, acc_b, tail0);
                            lemma_leads_concat(hp, head, gcars, tail_b, acc_b, tail0);
                            acc = gcars + acc_b;
                            lemma_cars_of_same(h0, hb, list, gcars);
                            lemma_cars_fn(h0, list, gcars);
                            if kb == 0 { assert(gcars + acc_b =~= gcars); }
                        } _ => {} }
                    }'''},
            ],
        },
        '::get_list_tail': {
            'props': L, 'requires': REQ,
            'attrs': '#[verifier::exec_allows_no_decreases_clause]',
            'ensures': [
                # success: the idx-th tail, reached through idx pairs; the machine is not touched
                (['C14'], 'r matches Ok(t) ==> t == tail_ptr(old(vm).heap_spec(), *list, idx as nat) && has_tails(old(vm).heap_spec(), *list, idx as nat)'),
                (['C14'], '*final(vm) == *old(vm)'),
                # R7RS: a list with at least idx pairs has an idx-th tail: never refused
                (['C14'], 'has_tails(old(vm).heap_spec(), *list, idx as nat) ==> r is Ok'),
            ],
            'loops': {0: '''invariant
                    rest_idx <= idx, *vm == *old(vm), vm.stack_spec().wf(),
                    rest == tail_ptr(vm.heap_spec(), *list, (idx - rest_idx) as nat),
                    has_tails(vm.heap_spec(), *list, (idx - rest_idx) as nat),'''},
            'loop_count': 1,
            'inserts': [{'loop_start': 0, 'text': 'proof { axiom_cow_cell_ref(&rest); }'}],
        },
        '::list_ref': {
            'props': L, 'requires': REQ,
            'body_start': 'proof { if old(vm).stack_spec().sp_spec() >= 3 { axiom_cow_cell_ref(&arg(*old(vm), 2)); } }',
            'ensures': [
                # element idx is the car of the idx-th tail: a pointer to the stored object itself
                (['C14'], '''r matches Ok(x) ==> (cell_index(old(vm).heap_spec(), arg(*old(vm), 1)) matches Some(i)
                    && (heap_deref(old(vm).heap_spec(), tail_ptr(old(vm).heap_spec(), arg(*old(vm), 2), i as nat)) matches VCell::Pair(a, d) && x == VCell::Ptr(a)
                        && has_tails(old(vm).heap_spec(), arg(*old(vm), 2), i as nat)))'''),
                # an index below the number of pairs is never refused
                (['C14'], '''(arg(*old(vm), 0) == VCell::ArgumentCount(2) && old(vm).stack_spec().sp_spec() >= 3
                    && (cell_index(old(vm).heap_spec(), arg(*old(vm), 1)) matches Some(i) && has_tails(old(vm).heap_spec(), arg(*old(vm), 2), i as nat)
                        && heap_deref(old(vm).heap_spec(), tail_ptr(old(vm).heap_spec(), arg(*old(vm), 2), i as nat)) is Pair
                        && (heap_deref(old(vm).heap_spec(), arg(*old(vm), 2)) is Pair || heap_deref(old(vm).heap_spec(), arg(*old(vm), 2)) is Nil))) ==> r is Ok'''),
            ],
            'inserts': [{'anchor': ['let tail = get_list_tail(vm, &list_ptr, idx)?;', 'get_list_tail(vm, &list_ptr, idx)?;'], 'where': 'after', 'text': 'proof { axiom_cow_cell_ref(&tail); axiom_cow_cell_ref(&list_ptr); }'}],
        },
        '::list_tail': {
            'props': L, 'requires': REQ,
            'ensures': [
                (['C14'], '''r matches Ok(x) ==> (cell_index(old(vm).heap_spec(), arg(*old(vm), 1)) matches Some(i)
                    && x == tail_ptr(old(vm).heap_spec(), arg(*old(vm), 2), i as nat) && has_tails(old(vm).heap_spec(), arg(*old(vm), 2), i as nat))'''),
                # a list (pair or ()) with at least i pairs is never refused
                (['C14'], '''(arg(*old(vm), 0) == VCell::ArgumentCount(2) && old(vm).stack_spec().sp_spec() >= 3
                    && (cell_index(old(vm).heap_spec(), arg(*old(vm), 1)) matches Some(i) && has_tails(old(vm).heap_spec(), arg(*old(vm), 2), i as nat)
                        && (heap_deref(old(vm).heap_spec(), arg(*old(vm), 2)) is Pair || heap_deref(old(vm).heap_spec(), arg(*old(vm), 2)) is Nil))) ==> r is Ok'''),
            ],
            'body_start': 'proof { if old(vm).stack_spec().sp_spec() >= 3 { axiom_cow_cell_ref(&arg(*old(vm), 2)); } }',
        },
    },
}]
