"""Unit `run_one`: marwood/src/vm/run.rs -- the tail-call instruction rewrites the current frame in place (C04, run-time half).

The contract is scoped by its precondition to machine states whose next instruction is TCALL: every other arm of the
instruction match is then unreachable (and its obligations are vacuous), so what is proved is exactly the TCALL arm of the
real run_one.  The state after a tail call to a Scheme procedure (closure or lambda) is pinned down completely: the new frame
occupies the slots of the old one, starting at the old frame's first argument -- the stack pointer afterwards depends only on
where the caller's frame began and on the number of arguments, not on how deep the stack was or how many tail calls came before.
"""

PRELUDE = r'''
use crate::vm::heap::Heap; use crate::vm::stack::Stack;
use crate::vm::continuation::{cont_stack, cont_regs, cont_wf};
// ---------------------------------------------------------------- assumed contracts of what run_one calls
/// the opcode at %ip: the cell of the current code object that %ip.1 addresses, if it is an opcode
pub uninterp spec fn no_opcode() -> OpCode;
pub open spec fn next_op(vm: Vm) -> OpCode {
    if vm.regs().1.1 < cur_lambda(vm).bc@.len() { match cur_lambda(vm).bc@[vm.regs().1.1 as int] { VCell::OpCode(op) => op, _ => no_opcode() } } else { no_opcode() }
}
/// one-line matches / reads (vcell.rs, lambda.rs)
pub assume_specification [VCell::as_opcode] (v: &VCell) -> (r: Result<OpCode, Error>)
    ensures *v matches VCell::OpCode(op) ==> r == Ok::<OpCode, Error>(op), !(*v is OpCode) ==> r is Err;
pub assume_specification [Lambda::get] (l: &Lambda, i: usize) -> (r: Option<&VCell>)
    ensures i < l.bc@.len() ==> (r matches Some(c) && *c == l.bc@[i as int]), i >= l.bc@.len() ==> r is None;
/// std: a Vec of a non-zero-sized type never holds more than isize::MAX elements
#[verifier::external_body]
pub proof fn axiom_bc_len(l: Lambda) ensures l.bc@.len() <= isize::MAX {}
pub assume_specification [Vm::trace_instruction] (vm: &Vm);
pub assume_specification [Vm::read_operand] (vm: &mut Vm) -> (r: Result<VCell, Error>);
pub assume_specification [Vm::load_operand] (vm: &mut Vm) -> (r: Result<VCell, Error>);
pub assume_specification [Vm::store_operand] (vm: &mut Vm, v: VCell) -> (r: Result<(), Error>);
pub uninterp spec fn heap_deref(h: Heap, c: VCell) -> VCell;
pub uninterp spec fn cow_cell<T>(x: T) -> VCell;
#[verifier::external_body]
pub proof fn axiom_cow_cell_ref(c: &VCell) ensures cow_cell::<&VCell>(c) == *c {}
pub assume_specification<'a, T: Into<std::borrow::Cow<'a, VCell>>> [Heap::get] (h: &Heap, v: T) -> (r: VCell) ensures r == heap_deref(*h, cow_cell(v));
pub assume_specification<T: Into<VCell> + Clone> [Heap::put] (h: &mut Heap, v: T) -> (r: VCell);
pub assume_specification<T: Into<VCell> + Clone> [Heap::maybe_put] (h: &mut Heap, v: T) -> (r: VCell);
/// (assumed total: it panics on an index beyond the heap, which a pointer held by the machine never is)
pub assume_specification [Heap::get_at_index] (h: &Heap, i: usize) -> (r: &VCell) ensures *r == heap_deref(*h, VCell::Ptr(i));
pub assume_specification [Heap::get_as_cell] (h: &Heap, v: &VCell) -> (r: Cell);
pub assume_specification [VCell::as_vector] (v: &VCell) -> (r: Result<&crate::vm::vector::Vector, Error>);
pub assume_specification [VCell::as_lambda] (v: &VCell) -> (r: Result<&Lambda, Error>)
    ensures *v matches VCell::Lambda(l) ==> (r matches Ok(x) && *x == *l), !(*v is Lambda) ==> r is Err;
pub assume_specification [VCell::as_lexical_env] (v: &VCell) -> (r: Result<&crate::vm::environment::LexicalEnvironment, Error>);
/// VCell::as_ip / as_ep / as_bp: verified in unit vcell (pre-rewrite str_consts), no longer assumed here
pub assume_specification [crate::vm::vector::Vector::push] (v: &crate::vm::vector::Vector, x: VCell);
pub assume_specification [Vm::build_closure_environment] (vm: &Vm, envmap: &crate::vm::environment::EnvironmentMap) -> (r: Result<crate::vm::environment::LexicalEnvironment, Error>);
pub assume_specification [Vm::build_lexical_environment] (vm: &Vm, lambda: &Lambda, p: usize, e: &crate::vm::environment::LexicalEnvironment) -> (r: Result<crate::vm::environment::LexicalEnvironment, Error>);
pub assume_specification [crate::vm::vcell::BuiltInProc::eval] (p: &crate::vm::vcell::BuiltInProc, vm: &mut Vm) -> (r: Result<VCell, Error>);
/// the code object %ip points into: the Lambda cell %ip.0 designates
pub uninterp spec fn no_lambda() -> Lambda;
pub open spec fn lambda_at(h: Heap, ip0: usize) -> Lambda { match heap_deref(h, VCell::Ptr(ip0)) { VCell::Lambda(l) => *l, _ => no_lambda() } }
pub open spec fn cur_lambda(vm: Vm) -> Lambda { lambda_at(vm.heap_spec(), vm.regs().1.0) }
/// %ip.0 designates a code object (what CALL / TCALL / RET establish; Vm::lambda panics otherwise)
pub open spec fn code_ready(vm: Vm) -> bool { heap_deref(vm.heap_spec(), VCell::Ptr(vm.regs().1.0)) is Lambda }
/// Heap::get / get_at_index answer a cell that is not a pointer with that very cell (heap.rs: `_ => vcell`)
#[verifier::external_body]
pub proof fn axiom_deref_immediate(h: Heap, c: VCell) ensures !(c is Ptr) ==> heap_deref(h, c) == c {}
/// std: `impl<T> From<T> for T` is the identity
#[verifier::external_body]
pub proof fn axiom_into_self() ensures <VCell as vstd::std_specs::convert::IntoSpec<VCell>>::obeys_into_spec(),
    forall|v: VCell| #[trigger] <VCell as vstd::std_specs::convert::IntoSpec<VCell>>::into_spec(v) == v {}

// ---------------------------------------------------------------- frame layout
/// the argument count stored in slot i, if that is what the slot holds
pub open spec fn argc_at(s: Stack, i: int) -> Option<usize> {
    if 0 <= i < s.cells().len() { match s.cells()[i] { VCell::ArgumentCount(n) => Some(n), _ => None } } else { None }
}
/// the callee in %acc is a Scheme procedure (closure or bare lambda), not a builtin or a continuation
pub open spec fn callee_is_procedure(vm: Vm) -> bool {
    heap_deref(vm.heap_spec(), vm.acc_spec()) is Closure || heap_deref(vm.heap_spec(), vm.acc_spec()) is Lambda
}
/// Layout when TCALL executes inside a frame whose base pointer is bp (ENTER pushed the saved base pointer at bp + 4):
///   [bp - m + 1 ..= bp] the m arguments of the running procedure, bp + 1: ArgumentCount(m), bp + 2: saved %ep, bp + 3: saved %ip,
///   bp + 4: saved %bp, then whatever the body pushed, then the n new arguments and ArgumentCount(n) on top (slot sp).
/// Only the arithmetic consequences are required (slot *types* are checked by the code itself, which fails with an error otherwise).
pub open spec fn tcall_frame(vm: Vm) -> bool {
    let s = vm.stack_spec(); let bp = vm.regs().2 as int; let sp = s.sp_spec() as int;
    &&& s.wf()
    &&& bp + 4 < s.cells().len()
    &&& (argc_at(s, sp) matches Some(n) ==> bp + 5 + n <= sp)
    &&& (argc_at(s, bp + 1) matches Some(m) ==> m <= bp)
}
/// the two argument counts TCALL reads: the new call's (top of stack) and the running frame's (bp + 1); 0 if the slot holds something else
pub open spec fn tc_n(vm: Vm) -> int { match argc_at(vm.stack_spec(), vm.stack_spec().sp_spec() as int) { Some(n) => n as int, None => 0 } }
pub open spec fn tc_m(vm: Vm) -> int { match argc_at(vm.stack_spec(), vm.regs().2 + 1) { Some(m) => m as int, None => 0 } }
/// slots lo..hi of s hold what slots src_lo.. of s0 held
pub open spec fn copied(s0: Stack, s: Stack, lo: int, hi: int, src_lo: int) -> bool {
    forall|j: int| lo <= j < hi ==> #[trigger] s.cells()[j] == s0.cells()[src_lo + (j - lo)]
}
/// every slot of s0 outside lo..hi is unchanged in s
pub open spec fn same_outside(s0: Stack, s: Stack, lo: int, hi: int) -> bool {
    forall|j: int| 0 <= j < s0.cells().len() && !(lo <= j < hi) ==> #[trigger] s.cells()[j] == s0.cells()[j]
}
/// the callee in %acc is a continuation object
pub open spec fn callee_continuation(vm: Vm) -> Option<crate::vm::continuation::Continuation> {
    match heap_deref(vm.heap_spec(), vm.acc_spec()) { VCell::Continuation(c) => Some(*c), _ => None }
}
/// invoking a continuation (CALL or TCALL with a continuation in %acc): the machine is back at the captured control state --
/// live stack, stack pointer, %ep, %ip, %bp of the capture -- and, for an invocation with one argument, the accumulator holds that argument cell itself
/// (the cell under the argument count; not a copy, not what it points to); heap and globals are as they were before the call
pub open spec fn continuation_invoked(old: Vm, new: Vm, c: crate::vm::continuation::Continuation) -> bool {
    let s0 = old.stack_spec(); let sp = s0.sp_spec() as int;
    // the property speaks about invoking k with ONE value: nothing is demanded of (k) or (k v w ...)
    &&& (argc_at(s0, sp) == Some(1usize)) ==> sp >= 2 && new.acc_spec() == s0.cells()[sp - 1]
    &&& new.regs() == cont_regs(c)
    &&& new.stack_spec().wf() && new.stack_spec().live() == cont_stack(c).cells() && new.stack_spec().sp_spec() == cont_stack(c).sp_spec()
    &&& new.heap_spec() == old.heap_spec() && new.globenv_spec() == old.globenv_spec()
}
/// Layout when VARARG executes (first instruction of a variadic procedure, before ENTER): the caller's CALL / TCALL left
///   [.. the n arguments | ArgumentCount(n) | saved %ep | saved %ip] with the saved %ip in slot sp.
/// A variadic code object has at least the rest parameter among its formals.
pub open spec fn vararg_frame(vm: Vm) -> bool {
    let s = vm.stack_spec(); let sp = s.sp_spec() as int;
    &&& cur_lambda(vm).args@.len() >= 1
    &&& sp >= 2 && (argc_at(s, sp - 2) matches Some(n) ==> n + 3 <= sp)
}
/// what VARARG leaves when at least the required arguments were passed: the optional arguments are replaced by ONE slot (the rest
/// list), so the frame has exactly req + 1 arguments whatever the caller passed; the saved registers are back on top in the same
/// order; the required arguments and everything below are untouched
pub open spec fn vararg_normalised(old: Vm, new: Vm) -> bool {
    let s0 = old.stack_spec(); let s1 = new.stack_spec(); let sp = s0.sp_spec() as int; let req = cur_lambda(old).args@.len() - 1;
    argc_at(s0, sp - 2) matches Some(n) && n >= req && {
        let top = sp - n + req + 1;
        &&& s1.wf() && s1.sp_spec() == top
        &&& s1.cells()[top] == s0.cells()[sp] && s1.cells()[top - 1] == s0.cells()[sp - 1] && s1.cells()[top - 2] == VCell::ArgumentCount((req + 1) as usize)
        &&& forall|j: int| 0 <= j < sp - 2 - n + req ==> #[trigger] s1.cells()[j] == s0.cells()[j]
        &&& new.regs().0 == old.regs().0 && new.regs().2 == old.regs().2
    }
}
/// what CALL to a procedure leaves: exactly two more slots, the caller's %ep and the return address (the instruction after the CALL)
pub open spec fn frame_pushed(old: Vm, new: Vm) -> bool {
    let s0 = old.stack_spec(); let s1 = new.stack_spec(); let sp = s0.sp_spec() as int;
    &&& s1.wf() && s1.sp_spec() == sp + 2
    &&& s1.cells()[sp + 1] == VCell::EnvironmentPointer(old.regs().0)
    &&& s1.cells()[sp + 2] == VCell::InstructionPointer(old.regs().1.0, (old.regs().1.1 + 1) as usize)
    &&& forall|j: int| 0 <= j <= sp ==> #[trigger] s1.cells()[j] == s0.cells()[j]
    &&& new.regs().0 == old.regs().0 && new.regs().2 == old.regs().2 && new.heap_spec() == old.heap_spec()
}
/// what ENTER leaves (first instruction of a procedure body, after CALL / TCALL pushed argc, %ep, %ip): one more slot holding the
/// caller's base pointer, and the new base pointer addresses the last argument (argc at bp + 1, %ep at bp + 2, %ip at bp + 3, saved %bp at bp + 4)
pub open spec fn frame_entered(old: Vm, new: Vm) -> bool {
    let s0 = old.stack_spec(); let s1 = new.stack_spec(); let sp = s0.sp_spec() as int;
    &&& s1.wf() && s1.sp_spec() == sp + 1 && s1.cells()[sp + 1] == VCell::BasePointer(old.regs().2)
    &&& new.regs().2 == sp - 3
    &&& forall|j: int| 0 <= j <= sp ==> #[trigger] s1.cells()[j] == s0.cells()[j]
}
/// Layout when RET executes: bp + 1: ArgumentCount(m), bp + 2: saved %ep, bp + 3: saved %ip, bp + 4: saved %bp
pub open spec fn ret_frame(vm: Vm) -> bool {
    let s = vm.stack_spec(); let bp = vm.regs().2 as int;
    &&& bp + 4 < s.cells().len() && (argc_at(s, bp + 1) matches Some(m) ==> m <= bp)
}
/// what RET leaves: the whole frame including its arguments is gone (sp = slot below the first argument), the three saved
/// registers are the ones stored in the frame, no slot is written, heap and accumulator are untouched
pub open spec fn frame_popped(old: Vm, new: Vm) -> bool {
    let s0 = old.stack_spec(); let bp = old.regs().2 as int;
    argc_at(s0, bp + 1) matches Some(m) && (s0.cells()[bp + 2] matches VCell::EnvironmentPointer(ep) && (s0.cells()[bp + 3] matches VCell::InstructionPointer(i0, i1)
      && (s0.cells()[bp + 4] matches VCell::BasePointer(sbp) && {
        &&& new.stack_spec().sp_spec() == bp - m && new.stack_spec().cells() == s0.cells()
        &&& new.regs() == (ep, (i0, i1), sbp)
        &&& new.heap_spec() == old.heap_spec() && new.acc_spec() == old.acc_spec()
    })))
}
/// what the instruction requires of the machine: a well-formed stack that can still double; for TCALL the frame layout;
/// for a continuation callee a well-formed capture no longer than the running stack (stacks never shrink: whole-history fact)
pub open spec fn call_ready(vm: Vm) -> bool {
    &&& vm.stack_spec().wf()
    &&& (next_op(vm) is TCallAcc ==> tcall_frame(vm))
    &&& (next_op(vm) is VarArg ==> vararg_frame(vm))
    &&& (next_op(vm) is Ret ==> ret_frame(vm))
    &&& (next_op(vm) is Enter ==> vm.stack_spec().sp_spec() >= 3)
    &&& vm.regs().1.1 < usize::MAX
    &&& code_ready(vm)
    &&& (callee_continuation(vm) matches Some(c) ==> cont_wf(c) && cont_stack(c).cells().len() <= vm.stack_spec().cells().len())
}
/// what TCALL to a procedure leaves: the frame is rebuilt in place from its first argument slot (base = bp - m + 1)
pub open spec fn frame_replaced(old: Vm, new: Vm) -> bool {
    let s0 = old.stack_spec(); let s1 = new.stack_spec(); let bp = old.regs().2 as int; let sp = s0.sp_spec() as int;
    argc_at(s0, sp) matches Some(n) && (argc_at(s0, bp + 1) matches Some(m) && (s0.cells()[bp + 4] matches VCell::BasePointer(saved_bp) && {
        let top = bp - m + n + 3;
        &&& s1.sp_spec() == top && s1.wf()
        &&& new.regs().2 == saved_bp && new.regs().0 == old.regs().0
        &&& s1.cells()[top] == s0.cells()[bp + 3] && s1.cells()[top - 1] == s0.cells()[bp + 2] && s1.cells()[top - 2] == VCell::ArgumentCount(n)
        &&& copied(s0, s1, top - 2 - n, top - 2, sp - n)     // the n new arguments, in order, now directly above the frame base
        &&& forall|j: int| 0 <= j <= bp - m ==> #[trigger] s1.cells()[j] == s0.cells()[j]     // everything below the frame is untouched
        &&& new.heap_spec() == old.heap_spec()
    }))
}
'''

P = ['C04']
UNITS = [{
    'name': 'run_one',
    'file': 'src/vm/run.rs',
    'uses_types': ['Cell', 'Error', 'Heap', 'GlobalEnvironment', 'StackTrace', 'VCell', 'OpCodeT', 'Lambda', 'RcDeref', 'RcAsRef', 'Vector', 'LexicalEnvironment', 'EnvironmentMap', 'Continuation', 'BuiltInProc'],
    'prelude': PRELUDE,
    'fns': {
        # fetching the opcode moves %ip.1 and nothing else (verified; group run assumes this text over its own views)
        'impl Vm::lambda': {
            'props': P + ['C05', 'C06'],
            'requires': ['code_ready(*self)'],
            'ensures': [(P + ['C05'], '*r == cur_lambda(*self)')],
        },
        'impl Vm::read_opcode': {
            'props': P + ['C05', 'C06'],
            'requires': ['code_ready(*old(self))'],
            'body_start': 'proof { axiom_bc_len(cur_lambda(*old(self))); }',
            'ensures': [(P + ['C05'], 'r matches Ok(op) ==> op == next_op(*old(self))'),
                        (P + ['C05'], 'final(self).stack_spec() == old(self).stack_spec() && final(self).heap_spec() == old(self).heap_spec() && final(self).globenv_spec() == old(self).globenv_spec() && final(self).acc_spec() == old(self).acc_spec()'),
                        (P + ['C05'], 'final(self).regs().0 == old(self).regs().0 && final(self).regs().2 == old(self).regs().2 && final(self).regs().1.0 == old(self).regs().1.0'),
                        (P + ['C05'], 'r is Ok ==> final(self).regs().1.1 == old(self).regs().1.1 + 1')],
        },
        # Vm::pop: the popped cell read through the heap (verified here; the other groups assume this text)
        'impl Vm::pop': {
            'props': P + ['C06'],
            'requires': ['old(self).stack_spec().wf()'],
            'ensures': [(P, 'r matches Ok(c) ==> c == heap_deref(old(self).heap_spec(), old(self).stack_spec().cells()[old(self).stack_spec().sp_spec() as int])'),
                        (P, 'final(self).heap_spec() == old(self).heap_spec() && final(self).regs() == old(self).regs() && final(self).acc_spec() == old(self).acc_spec() && final(self).globenv_spec() == old(self).globenv_spec()'),
                        (P, 'final(self).stack_spec().wf() && final(self).stack_spec().cells() == old(self).stack_spec().cells()'),
                        (P, 'old(self).stack_spec().sp_spec() > 0 ==> r is Ok && final(self).stack_spec().sp_spec() == old(self).stack_spec().sp_spec() - 1'),
                        (P, 'old(self).stack_spec().sp_spec() == 0 ==> r is Err && final(self).stack_spec().sp_spec() == 0')],
            'body_start': 'proof { let c = old(self).stack_spec().cells()[old(self).stack_spec().sp_spec() as int]; axiom_deref_immediate(old(self).heap_spec(), c); }',
        },
        'impl Vm::run_one': {
            'props': P + ['C05'],
            'attrs': '#[verifier::exec_allows_no_decreases_clause]\n#[verifier::loop_isolation(false)]\n#[verifier::rlimit(80)]',
            'requires': ['next_op(*old(self)) is TCallAcc || next_op(*old(self)) is CallAcc || next_op(*old(self)) is VarArg || next_op(*old(self)) is Ret || next_op(*old(self)) is Enter', 'call_ready(*old(self))'],
            'ensures': [(P, '(r is Ok && next_op(*old(self)) is TCallAcc && callee_is_procedure(*old(self))) ==> frame_replaced(*old(self), *final(self))'),
                        (P, '(r is Ok && next_op(*old(self)) is CallAcc && callee_is_procedure(*old(self))) ==> frame_pushed(*old(self), *final(self))'),
                        (P, '(r is Ok && next_op(*old(self)) is Enter) ==> frame_entered(*old(self), *final(self))'),
                        (P, '(r is Ok && next_op(*old(self)) is Ret) ==> frame_popped(*old(self), *final(self))'),
                        (P, '(r is Ok && next_op(*old(self)) is VarArg) ==> vararg_normalised(*old(self), *final(self))'),
                        (['C05'], '(r is Ok && (next_op(*old(self)) is CallAcc || next_op(*old(self)) is TCallAcc)) ==> (callee_continuation(*old(self)) matches Some(c) ==> continuation_invoked(*old(self), *final(self), c))')],
            'body_start': 'proof { axiom_into_self(); axiom_cow_cell_ref(&old(self).acc_spec()); crate::vm::stack::axiom_stack_len(old(self).stack_spec()); }',
            'loop_count': 3,
            'loop_iter': {0: 'it0', 1: 'it1', 2: 'it2'},
            'loops': {
                2: '''invariant
                    self.stack_spec().wf(), self.stack_spec().cells() == old(self).stack_spec().cells(),
                    self.stack_spec().sp_spec() + 3 + it2.index@ == old(self).stack_spec().sp_spec(),
                    self.regs().0 == old(self).regs().0, self.regs().2 == old(self).regs().2,''',
                0: '''invariant
                    self.stack_spec().sp_spec() == old(self).stack_spec().sp_spec(), self.stack_spec().cells().len() == old(self).stack_spec().cells().len(),
                    self.regs().2 == old(self).regs().2, self.regs().0 == old(self).regs().0, self.heap_spec() == old(self).heap_spec(),
                    copied(old(self).stack_spec(), self.stack_spec(), old(self).regs().2 - it0.index@ + 1, old(self).regs().2 + 1, old(self).stack_spec().sp_spec() - it0.index@),
                    same_outside(old(self).stack_spec(), self.stack_spec(), old(self).regs().2 - it0.index@ + 1, old(self).regs().2 + 1),''',
                1: '''invariant
                    self.stack_spec().wf(), self.stack_spec().sp_spec() == old(self).regs().2 - tc_m(*old(self)) + it1.index@,
                    self.stack_spec().cells().len() == old(self).stack_spec().cells().len(),
                    self.regs().2 == old(self).regs().2, self.regs().0 == old(self).regs().0, self.heap_spec() == old(self).heap_spec(),
                    copied(old(self).stack_spec(), self.stack_spec(), old(self).regs().2 - tc_m(*old(self)) + 1, old(self).regs().2 - tc_m(*old(self)) + 1 + it1.index@, old(self).stack_spec().sp_spec() - tc_n(*old(self))),
                    same_outside(old(self).stack_spec(), self.stack_spec(), old(self).regs().2 - tc_m(*old(self)) + 1, old(self).regs().2 - tc_m(*old(self)) + 1 + it1.index@),''',
            },
        },
    },
}]
