"""Unit `builtin_number`: marwood/src/vm/builtin/number.rs — argument guards of the numeric procedures (C08, C06)."""

PRELUDE = r'''
use crate::vm::builtin::*;
use crate::number::*;
broadcast use crate::number::numspec::group_num;
/// `n.is_zero()` is `n == 0` (Kani harnesses num_is_zero_* check it on the real code for exact numbers)
pub assume_specification [Number::is_zero] (n: &Number) -> (r: bool) ensures is_exact(*n) ==> r == (vnum(*n) == 0);
/// (x - 0) * (-1) has the value -x:  n1*dx == nx*d1  and  nv*d1 == -n1*dv  with d1 > 0  give  nv*dx == -nx*dv
pub proof fn lemma_neg_value(nx: int, dx: int, n1: int, d1: int, nv: int, dv: int)
    requires d1 > 0, n1 * dx == nx * d1, nv * d1 == -n1 * dv
    ensures nv * dx == -nx * dv
{
    assert((nv * dx) * d1 == (-nx * dv) * d1) by (nonlinear_arith) requires n1 * dx == nx * d1, nv * d1 == -n1 * dv;
    assert(nv * dx == -nx * dv) by (nonlinear_arith) requires (nv * dx) * d1 == (-nx * dv) * d1, d1 > 0;
}
/// the number the k-th popped argument denotes (arg(vm, k), k >= 1), if it is a number
pub open spec fn num_arg(vm: Vm, k: int) -> Option<Number> { cell_number(vm.heap_spec(), arg(vm, k)) }
/// the first k arguments (in popping order) all are exact numbers
pub open spec fn args_exact(vm: Vm, k: nat) -> bool { forall|j: int| 1 <= j <= k ==> ((#[trigger] num_arg(vm, j)) matches Some(x) && is_exact(x)) }
/// exact sum / product of the first k arguments as a fraction (numerator, denominator), denominators positive
pub open spec fn args_sum(vm: Vm, k: nat) -> (int, int) decreases k {
    if k == 0 { (0int, 1int) } else { match num_arg(vm, k as int) {
        Some(x) => (args_sum(vm, (k - 1) as nat).0 * vden(x) + vnum(x) * args_sum(vm, (k - 1) as nat).1, args_sum(vm, (k - 1) as nat).1 * vden(x)),
        None => (0int, 1int) } }
}
pub open spec fn args_prod(vm: Vm, k: nat) -> (int, int) decreases k {
    if k == 0 { (1int, 1int) } else { match num_arg(vm, k as int) {
        Some(x) => (args_prod(vm, (k - 1) as nat).0 * vnum(x), args_prod(vm, (k - 1) as nat).1 * vden(x)),
        None => (1int, 1int) } }
}
/// s = N/D, s1 = s + x  ==>  s1 = (N * dx + nx * D) / (D * dx)        (all denominators positive)
pub proof fn lemma_cancel(x: int, y: int, k: int) requires x * k == y * k, k > 0 ensures x == y {
    assert(x == y) by (nonlinear_arith) requires x * k == y * k, k > 0;
}
pub proof fn lemma_swap3(a: int, b: int, c: int) ensures (a * b) * c == (a * c) * b {
    assert((a * b) * c == (a * c) * b) by (nonlinear_arith);
}
pub proof fn lemma_sum_step(sn: int, sd: int, n: int, d: int, xn: int, xd: int, rn: int, rd: int)
    requires sd > 0, d > 0, xd > 0, rd > 0, sn * d == n * sd, rn * (sd * xd) == (sn * xd + xn * sd) * rd
    ensures rn * (d * xd) == (n * xd + xn * d) * rd
{
    let lhs = rn * (d * xd); let a = n * xd; let b = xn * d; let rhs = (a + b) * rd;
    // lhs * sd == (rn * (sd * xd)) * d
    assert(lhs * sd == (rn * (sd * xd)) * d) by (nonlinear_arith) requires lhs == rn * (d * xd);
    // ... == ((sn * xd + xn * sd) * rd) * d == ((sn * xd + xn * sd) * d) * rd
    let t = sn * xd + xn * sd;
    assert((rn * (sd * xd)) * d == (t * rd) * d);
    lemma_swap3(t, rd, d);
    // (sn * xd + xn * sd) * d == (a + b) * sd
    assert((sn * xd) * d == a * sd) by (nonlinear_arith) requires sn * d == n * sd, a == n * xd;
    assert((xn * sd) * d == b * sd) by (nonlinear_arith) requires b == xn * d;
    assert(t * d == (a + b) * sd) by (nonlinear_arith) requires t == sn * xd + xn * sd, (sn * xd) * d == a * sd, (xn * sd) * d == b * sd;
    // ((a + b) * sd) * rd == ((a + b) * rd) * sd
    lemma_swap3(a + b, sd, rd);
    assert(lhs * sd == rhs * sd);
    lemma_cancel(lhs, rhs, sd);
}
/// s = N/D, s1 = s * x  ==>  s1 = (N * nx) / (D * dx)
pub proof fn lemma_prod_step(sn: int, sd: int, n: int, d: int, xn: int, xd: int, rn: int, rd: int)
    requires sd > 0, d > 0, xd > 0, rd > 0, sn * d == n * sd, rn * (sd * xd) == (sn * xn) * rd
    ensures rn * (d * xd) == (n * xn) * rd
{
    let lhs = rn * (d * xd); let rhs = (n * xn) * rd;
    let m = sn * d;
    assert(lhs * sd == (rn * (sd * xd)) * d) by (nonlinear_arith) requires lhs == rn * (d * xd);
    assert((rn * (sd * xd)) * d == ((sn * xn) * rd) * d);
    assert(((sn * xn) * rd) * d == (m * xn) * rd) by (nonlinear_arith) requires m == sn * d;
    assert(m == n * sd);
    assert((m * xn) * rd == rhs * sd) by (nonlinear_arith) requires m == n * sd, rhs == (n * xn) * rd;
    lemma_cancel(lhs, rhs, sd);
}
pub proof fn lemma_args_den_pos(vm: Vm, k: nat) ensures args_sum(vm, k).1 > 0, args_prod(vm, k).1 > 0 decreases k {
    if k > 0 { lemma_args_den_pos(vm, (k - 1) as nat);
        match num_arg(vm, k as int) { Some(x) => {
            assert(vden(x) > 0);
            assert(args_sum(vm, (k - 1) as nat).1 * vden(x) > 0) by (nonlinear_arith) requires args_sum(vm, (k - 1) as nat).1 > 0, vden(x) > 0;
            assert(args_prod(vm, (k - 1) as nat).1 * vden(x) > 0) by (nonlinear_arith) requires args_prod(vm, (k - 1) as nat).1 > 0, vden(x) > 0;
        } None => {} } }
}
impl vstd::std_specs::convert::FromSpecImpl<Number> for VCell {
    open spec fn obeys_from_spec() -> bool { true }
    open spec fn from_spec(v: Number) -> VCell { VCell::Number(v) }
}
'''

N = ['C08', 'C06']
REQ = ['old(vm).stack_spec().wf()']
UNITS = [{
    # second unit on vm/builtin/mod.rs, active only together with unit `number` (needs its value model)
    'name': 'builtin_mod_num',
    'file': 'src/vm/builtin/mod.rs',
    'uses_types': ['VCell', 'Error', 'Heap'],
    'prelude': 'use crate::number::{is_exact, is_int};',
    'fns': {
        '::pop_integer': {
            'props': N, 'requires': REQ,
            'ensures': [
                (N, 'r is Ok ==> popped(*old(vm), *final(vm), 1)'),
                # only integers get through: exact non-integers are rejected here, so the integer procedures meet the domain of % and quotient
                (N, 'r matches Ok(n) ==> old(vm).stack_spec().sp_spec() > 0 && cell_number(old(vm).heap_spec(), arg(*old(vm), 0)) == Some(n) && (is_exact(n) ==> is_int(n))'),
                (N, 'r is Err ==> final(vm).stack_spec().wf()'),
            ],
        },
    },
}, {
    'name': 'builtin_number',
    'file': 'src/vm/builtin/number.rs',
    'uses_types': ['VCell', 'Error', 'Heap'],
    'prelude': PRELUDE,
    'fns': {
        # each procedure establishes the precondition of the Number operation it calls (non-zero divisor, integer operands):
        # removing or weakening a guard fails the callee's precondition here
        # variadic + and *: an exact answer is exactly the sum / product of ALL the arguments, each of which then was exact
        '::plus': {
            'props': N, 'requires': REQ,
            'ensures': [
                (['C08'], '''r matches Ok(c) ==> (arg(*old(vm), 0) matches VCell::ArgumentCount(n) && (c matches VCell::Number(v)
                    && (is_exact(v) ==> args_exact(*old(vm), n as nat) && q_eq(vnum(v), vden(v), args_sum(*old(vm), n as nat).0, args_sum(*old(vm), n as nat).1))))'''),
            ],
            'loop_iter': {0: 'it0'},
            'loops': {0: '''invariant
                    vm.stack_spec().wf(), vm.heap_spec() == old(vm).heap_spec(), vm.stack_spec().cells() == old(vm).stack_spec().cells(),
                    arg(*old(vm), 0) == VCell::ArgumentCount(argc), old(vm).stack_spec().sp_spec() >= 1,
                    vm.stack_spec().sp_spec() == (if old(vm).stack_spec().sp_spec() - 1 - it0.index@ >= 0 { old(vm).stack_spec().sp_spec() - 1 - it0.index@ } else { 0 }),
                    is_exact(sum) ==> it0.index@ <= old(vm).stack_spec().sp_spec() - 1 && args_exact(*old(vm), it0.index@ as nat)
                        && q_eq(vnum(sum), vden(sum), args_sum(*old(vm), it0.index@ as nat).0, args_sum(*old(vm), it0.index@ as nat).1),'''},
            'loop_count': 1,
            'inserts': [
                {'loop_start': 0, 'text': 'let ghost sum0 = sum; proof { if old(vm).stack_spec().sp_spec() - 1 - it0.index@ >= 1 { axiom_cow_cell_ref(&arg(*old(vm), it0.index@ + 1)); } }'},
                {'loop_end': 0, 'text': '''; proof {
                    let j = it0.index@ as nat; let k = (j + 1) as nat;
                    if is_exact(sum) {
                        match num_arg(*old(vm), k as int) { Some(x) => {
                            lemma_args_den_pos(*old(vm), j);
                            assert(vden(sum0) > 0 && vden(x) > 0 && vden(sum) > 0);
                            lemma_sum_step(vnum(sum0), vden(sum0), args_sum(*old(vm), j).0, args_sum(*old(vm), j).1, vnum(x), vden(x), vnum(sum), vden(sum));
                            assert forall|i: int| 1 <= i <= k implies ((#[trigger] num_arg(*old(vm), i)) matches Some(y) && is_exact(y)) by { if i <= j { assert(args_exact(*old(vm), j)); } }
                        } None => {} }
                    }
                }'''},
            ],
        },
        '::multiply': {
            'props': N, 'requires': REQ,
            'ensures': [
                (['C08'], '''r matches Ok(c) ==> (arg(*old(vm), 0) matches VCell::ArgumentCount(n) && (c matches VCell::Number(v)
                    && (is_exact(v) ==> args_exact(*old(vm), n as nat) && q_eq(vnum(v), vden(v), args_prod(*old(vm), n as nat).0, args_prod(*old(vm), n as nat).1))))'''),
            ],
            'loop_iter': {0: 'it0'},
            'loops': {0: '''invariant
                    vm.stack_spec().wf(), vm.heap_spec() == old(vm).heap_spec(), vm.stack_spec().cells() == old(vm).stack_spec().cells(),
                    arg(*old(vm), 0) == VCell::ArgumentCount(argc), old(vm).stack_spec().sp_spec() >= 1,
                    vm.stack_spec().sp_spec() == (if old(vm).stack_spec().sp_spec() - 1 - it0.index@ >= 0 { old(vm).stack_spec().sp_spec() - 1 - it0.index@ } else { 0 }),
                    is_exact(result) ==> it0.index@ <= old(vm).stack_spec().sp_spec() - 1 && args_exact(*old(vm), it0.index@ as nat)
                        && q_eq(vnum(result), vden(result), args_prod(*old(vm), it0.index@ as nat).0, args_prod(*old(vm), it0.index@ as nat).1),'''},
            'loop_count': 1,
            'inserts': [
                {'loop_start': 0, 'text': 'let ghost sum0 = result; proof { if old(vm).stack_spec().sp_spec() - 1 - it0.index@ >= 1 { axiom_cow_cell_ref(&arg(*old(vm), it0.index@ + 1)); } }'},
                {'loop_end': 0, 'text': '''; proof {
                    let j = it0.index@ as nat; let k = (j + 1) as nat;
                    if is_exact(result) {
                        match num_arg(*old(vm), k as int) { Some(x) => {
                            lemma_args_den_pos(*old(vm), j);
                            assert(vden(sum0) > 0 && vden(x) > 0 && vden(result) > 0);
                            lemma_prod_step(vnum(sum0), vden(sum0), args_prod(*old(vm), j).0, args_prod(*old(vm), j).1, vnum(x), vden(x), vnum(result), vden(result));
                            assert forall|i: int| 1 <= i <= k implies ((#[trigger] num_arg(*old(vm), i)) matches Some(y) && is_exact(y)) by { if i <= j { assert(args_exact(*old(vm), j)); } }
                        } None => {} }
                    }
                }'''},
            ],
        },
        '::minus': {
            'props': N, 'requires': REQ,
            'body_start': 'proof { if old(vm).stack_spec().sp_spec() > 1 { axiom_cow_cell_ref(&arg(*old(vm), 1)); } }',
            'ensures': [
                # unary minus: an exact answer is exactly the negation, whichever representation carries the operand, and an
                # exact integer operand never becomes inexact
                (['C08'], '''r matches Ok(c) ==> (arg(*old(vm), 0) == VCell::ArgumentCount(1) ==> (c matches VCell::Number(v) && (cell_number(old(vm).heap_spec(), arg(*old(vm), 1)) matches Some(x)
                    ==> (is_exact(v) ==> is_exact(x) && vnum(v) * vden(x) == -vnum(x) * vden(v)) && (is_exact(x) && !(x is Rational) ==> is_exact(v)))))'''),
                # (- x y ...): an exact answer is exactly x minus the sum of ALL the other arguments, each of which then was exact
                (['C08'], '''r matches Ok(c) ==> (arg(*old(vm), 0) matches VCell::ArgumentCount(n) ==> (n >= 2 ==> (c matches VCell::Number(v) && (num_arg(*old(vm), n as int) matches Some(x)
                    ==> (is_exact(v) ==> is_exact(x) && args_exact(*old(vm), (n - 1) as nat)
                        && q_eq(vnum(v), vden(v), vnum(x) * args_sum(*old(vm), (n - 1) as nat).1 - args_sum(*old(vm), (n - 1) as nat).0 * vden(x), vden(x) * args_sum(*old(vm), (n - 1) as nat).1))))))'''),
            ],
            'loop_iter': {0: 'it0'},
            'loops': {0: '''invariant
                    vm.stack_spec().wf(), vm.heap_spec() == old(vm).heap_spec(), vm.stack_spec().cells() == old(vm).stack_spec().cells(),
                    arg(*old(vm), 0) == VCell::ArgumentCount(argc), argc >= 1, old(vm).stack_spec().sp_spec() >= 1,
                    vm.stack_spec().sp_spec() == (if old(vm).stack_spec().sp_spec() - 1 - it0.index@ >= 0 { old(vm).stack_spec().sp_spec() - 1 - it0.index@ } else { 0 }),
                    argc == 1 ==> result == Number::Fixnum(0),
                    is_exact(result) ==> it0.index@ <= old(vm).stack_spec().sp_spec() - 1 && args_exact(*old(vm), it0.index@ as nat)
                        && q_eq(vnum(result), vden(result), args_sum(*old(vm), it0.index@ as nat).0, args_sum(*old(vm), it0.index@ as nat).1),'''},
            'loop_count': 1,
            'inserts': [
                {'loop_start': 0, 'text': 'let ghost sum0 = result; proof { if old(vm).stack_spec().sp_spec() - 1 - it0.index@ >= 1 { axiom_cow_cell_ref(&arg(*old(vm), it0.index@ + 1)); } }'},
                {'loop_end': 0, 'text': '''; proof {
                    let j = it0.index@ as nat; let k = (j + 1) as nat;
                    if is_exact(result) {
                        match num_arg(*old(vm), k as int) { Some(x) => {
                            lemma_args_den_pos(*old(vm), j);
                            assert(vden(sum0) > 0 && vden(x) > 0 && vden(result) > 0);
                            lemma_sum_step(vnum(sum0), vden(sum0), args_sum(*old(vm), j).0, args_sum(*old(vm), j).1, vnum(x), vden(x), vnum(result), vden(result));
                            assert forall|i: int| 1 <= i <= k implies ((#[trigger] num_arg(*old(vm), i)) matches Some(y) && is_exact(y)) by { if i <= j { assert(args_exact(*old(vm), j)); } }
                        } None => {} }
                    }
                }'''},
                {'anchor': 'if let VCell::Number(n) = vm.heap.get(vm.stack.pop()?) {', 'where': 'before', 'text': 'let ghost s0 = result; proof { if old(vm).stack_spec().sp_spec() >= argc && argc >= 1 { axiom_cow_cell_ref(&arg(*old(vm), argc as int)); } }'},
                {'anchor': 'if argc == 1 {', 'where': 'before', 'text': '''let ghost r1 = result;
                proof {
                    if argc >= 2 && is_exact(result) {
                        match num_arg(*old(vm), argc as int) { Some(x) => {
                            let m = (argc - 1) as nat;
                            lemma_args_den_pos(*old(vm), m);
                            assert(is_exact(s0) && is_exact(x) && is_diff(result, x, s0));
                            assert(vden(s0) > 0 && vden(x) > 0 && vden(result) > 0);
                            // x - s == (-s) + x
                            let (sn, sd, xn, xd, rn, rd) = (vnum(s0), vden(s0), vnum(x), vden(x), vnum(result), vden(result));
                            let (n0, d0) = (args_sum(*old(vm), m).0, args_sum(*old(vm), m).1);
                            assert((-sn) * d0 == (-n0) * sd) by (nonlinear_arith) requires sn * d0 == n0 * sd;
                            assert(rn * (sd * xd) == ((-sn) * xd + xn * sd) * rd) by (nonlinear_arith) requires rn * (xd * sd) == (xn * sd - sn * xd) * rd;
                            lemma_sum_step(-vnum(s0), vden(s0), -args_sum(*old(vm), m).0, args_sum(*old(vm), m).1, vnum(x), vden(x), vnum(result), vden(result));
                            assert(rn * (xd * d0) == (xn * d0 - n0 * xd) * rd) by (nonlinear_arith) requires rn * (d0 * xd) == ((-n0) * xd + xn * d0) * rd;
                        } None => {} }
                    }
                }'''},
                {'anchor': 'Ok(VCell::Number(result))', 'where': 'before', 'text': '''proof {
                    if argc == 1 && is_exact(result) {
                        match cell_number(old(vm).heap_spec(), arg(*old(vm), 1)) {
                            Some(x) => {
                                assert(vden(r1) > 0);
                                assert(vnum(r1) * vden(x) == vnum(x) * vden(r1)) by (nonlinear_arith) requires is_diff(r1, x, Number::Fixnum(0i64));
                                assert(vnum(result) * vden(r1) == -vnum(r1) * vden(result)) by (nonlinear_arith) requires is_prod(result, r1, Number::Fixnum(-1i64));
                                lemma_neg_value(vnum(x), vden(x), vnum(r1), vden(r1), vnum(result), vden(result));
                            }
                            None => {}
                        }
                    }
                }'''},
            ],
        },
        # the unary procedures hand their one argument to the Number operation of the same name and return its answer
        '::abs': {'props': N, 'requires': REQ, 'ensures': [(['C08'], '''r matches Ok(c) ==> (c matches VCell::Number(v) && (num_arg(*old(vm), 1) matches Some(x)
            && (is_exact(v) ==> is_exact(x) && vden(v) > 0 && q_eq(vnum(v), vden(v), iabs(vnum(x)), vden(x)))))''')]},
        '::floor': {'props': N, 'requires': REQ, 'ensures': [(['C08'], '''r matches Ok(c) ==> (c matches VCell::Number(v) && (num_arg(*old(vm), 1) matches Some(x)
            && (is_exact(v) <==> is_exact(x)) && (is_exact(x) ==> is_int(v) && vnum(v) == fdiv(vnum(x), vden(x)))))''')]},
        '::ceiling': {'props': N, 'requires': REQ, 'ensures': [(['C08'], '''r matches Ok(c) ==> (c matches VCell::Number(v) && (num_arg(*old(vm), 1) matches Some(x)
            && (is_exact(v) <==> is_exact(x)) && (is_exact(x) ==> is_int(v) && vnum(v) == cdiv(vnum(x), vden(x)))))''')]},
        '::truncate': {'props': N, 'requires': REQ, 'ensures': [(['C08'], '''r matches Ok(c) ==> (c matches VCell::Number(v) && (num_arg(*old(vm), 1) matches Some(x)
            && (is_exact(v) <==> is_exact(x)) && (is_exact(x) ==> is_int(v) && vnum(v) == tdiv(vnum(x), vden(x)))))''')]},
        # min / max compare with `<` / `>`: provided trait methods cannot be given a specification in this Verus, so they are not under contract
        # (x is the first argument = arg 2, y the second = arg 1)
        '::divide': {'props': N, 'requires': REQ, 'ensures': [
            (['C08'], '''r matches Ok(c) ==> (c matches VCell::Number(v) && (arg(*old(vm), 0) == VCell::ArgumentCount(2) ==>
                (num_arg(*old(vm), 2) matches Some(x) && (num_arg(*old(vm), 1) matches Some(y) && (is_exact(v) ==> is_exact(x) && is_exact(y) && is_quot(v, x, y))))))'''),
            (['C08'], '''r matches Ok(c) ==> (c matches VCell::Number(v) && (arg(*old(vm), 0) == VCell::ArgumentCount(1) ==>
                (num_arg(*old(vm), 1) matches Some(y) && (is_exact(v) ==> is_exact(y) && is_quot(v, Number::Fixnum(1i64), y)))))'''),
        ]},
        '::quotient': {'props': N, 'requires': REQ, 'ensures': [
            (['C08'], '''r matches Ok(c) ==> (c matches VCell::Number(v) && (num_arg(*old(vm), 2) matches Some(x) && (num_arg(*old(vm), 1) matches Some(y)
                && (is_exact(x) && is_exact(y) ==> is_int(v) && vnum(v) == tdiv(vnum(x), vnum(y))))))'''),
        ]},
        '::remainder': {'props': N, 'requires': REQ, 'ensures': [
            (['C08'], '''r matches Ok(c) ==> (c matches VCell::Number(v) && (num_arg(*old(vm), 2) matches Some(x) && (num_arg(*old(vm), 1) matches Some(y)
                && (is_exact(x) && is_exact(y) ==> is_int(v) && vnum(v) == trem(vnum(x), vnum(y))))))'''),
        ]},
        # Number::modulo needs `!(Float, BigInt)` (closure results are opaque to Verus), which the procedure cannot establish for
        # (modulo 5.0 <bignum>): the contract of the procedure is scoped by precondition to a first argument that is not a float
        '::modulo': {'props': N,
            'requires': REQ + ['old(vm).stack_spec().sp_spec() > 2 ==> !(num_arg(*old(vm), 2) matches Some(x) && x is Float)'],
            'body_start': 'proof { if old(vm).stack_spec().sp_spec() > 2 { axiom_cow_cell_ref(&arg(*old(vm), 1)); axiom_cow_cell_ref(&arg(*old(vm), 2)); } }',
            'ensures': [
            (['C08'], '''r matches Ok(c) ==> (c matches VCell::Number(v) && (num_arg(*old(vm), 2) matches Some(x) && (num_arg(*old(vm), 1) matches Some(y)
                && (is_exact(x) && is_exact(y) ==> is_int(v) && vnum(v) == fmod(vnum(x), vnum(y))))))'''),
        ]},
        '::expt': {'props': N, 'requires': REQ, 'ensures': [
            # (expt x e): an exact answer is exactly x^e for the integer e that was passed
            (['C08'], '''r matches Ok(c) ==> (c matches VCell::Number(v) && (num_arg(*old(vm), 2) matches Some(x) && (num_arg(*old(vm), 1) matches Some(e)
                && (is_exact(v) && is_exact(e) ==> is_exact(x) && is_int(e) && vnum(e) >= 0 && vden(v) > 0
                    && q_eq(vnum(v), vden(v), ipow(vnum(x), vnum(e) as nat), ipow(vden(x), vnum(e) as nat))))))'''),
        ]},
        '::numerator': {'props': N, 'requires': REQ, 'ensures': [(['C08'], '''r matches Ok(c) ==> (c matches VCell::Number(v) && (num_arg(*old(vm), 1) matches Some(x)
            && (is_exact(x) ==> is_int(v) && vnum(v) == vnum(x))))''')]},
        '::denominator': {'props': N, 'requires': REQ, 'ensures': [(['C08'], '''r matches Ok(c) ==> (c matches VCell::Number(v) && (num_arg(*old(vm), 1) matches Some(x)
            && (is_exact(x) ==> is_int(v) && vnum(v) == vden(x))))''')]},
    },
}]
