"""Unit `builtin_number`: marwood/src/vm/builtin/number.rs — argument guards of the numeric procedures (C08, C06)."""

PRELUDE = r'''
use crate::vm::builtin::*;
use crate::number::*;
broadcast use crate::number::numspec::group_num;
/// `n.is_zero()` is `n == 0` (Kani harnesses num_is_zero_* check it on the real code for exact numbers)
pub assume_specification [Number::is_zero] (n: &Number) -> (r: bool) ensures is_exact(*n) ==> r == (vnum(*n) == 0);
pub assume_specification [Number::to_u32] (n: &Number) -> (r: Option<u32>);
/// (x - 0) * (-1) has the value -x:  n1*dx == nx*d1  and  nv*d1 == -n1*dv  with d1 > 0  give  nv*dx == -nx*dv
pub proof fn lemma_neg_value(nx: int, dx: int, n1: int, d1: int, nv: int, dv: int)
    requires d1 > 0, n1 * dx == nx * d1, nv * d1 == -n1 * dv
    ensures nv * dx == -nx * dv
{
    assert((nv * dx) * d1 == (-nx * dv) * d1) by (nonlinear_arith) requires n1 * dx == nx * d1, nv * d1 == -n1 * dv;
    assert(nv * dx == -nx * dv) by (nonlinear_arith) requires (nv * dx) * d1 == (-nx * dv) * d1, d1 > 0;
}
impl vstd::std_specs::convert::FromSpecImpl<Number> for VCell {
    open spec fn obeys_from_spec() -> bool { true }
    open spec fn from_spec(v: Number) -> VCell { VCell::Number(v) }
}
'''

N = ['C08', 'C06']
REQ = ['old(vm).stack_spec().wf()']
UNITS = [{
    # second unit on vm/builtin/mod.rs, active only together with unit `number` (needs its value model)
    'name': 'builtin_mod_num',
    'file': 'src/vm/builtin/mod.rs',
    'uses_types': ['VCell', 'Error', 'Heap'],
    'prelude': 'use crate::number::{is_exact, is_int};',
    'fns': {
        '::pop_integer': {
            'props': N, 'requires': REQ,
            'ensures': [
                (N, 'r is Ok ==> popped(*old(vm), *final(vm), 1)'),
                # only integers get through: exact non-integers are rejected here, so the integer procedures meet the domain of % and quotient
                (N, 'r matches Ok(n) ==> old(vm).stack_spec().sp_spec() > 0 && cell_number(old(vm).heap_spec(), arg(*old(vm), 0)) == Some(n) && (is_exact(n) ==> is_int(n))'),
                (N, 'r is Err ==> final(vm).stack_spec().wf()'),
            ],
        },
    },
}, {
    'name': 'builtin_number',
    'file': 'src/vm/builtin/number.rs',
    'uses_types': ['VCell', 'Error', 'Heap'],
    'prelude': PRELUDE,
    'fns': {
        # each procedure establishes the precondition of the Number operation it calls (non-zero divisor, integer operands):
        # removing or weakening a guard fails the callee's precondition here
        '::minus': {
            'props': N, 'requires': REQ,
            'body_start': 'proof { if old(vm).stack_spec().sp_spec() > 1 { axiom_cow_cell_ref(&arg(*old(vm), 1)); } }',
            'ensures': [
                # unary minus: an exact answer is exactly the negation, whichever representation carries the operand, and an
                # exact integer operand never becomes inexact
                (['C08'], '''r matches Ok(c) ==> (arg(*old(vm), 0) == VCell::ArgumentCount(1) ==> (c matches VCell::Number(v) && (cell_number(old(vm).heap_spec(), arg(*old(vm), 1)) matches Some(x)
                    ==> (is_exact(v) ==> is_exact(x) && vnum(v) * vden(x) == -vnum(x) * vden(v)) && (is_exact(x) && !(x is Rational) ==> is_exact(v)))))'''),
            ],
            'loops': {0: '''invariant
                    vm.stack_spec().wf(), vm.heap_spec() == old(vm).heap_spec(),
                    argc == 1 ==> (result == Number::Fixnum(0) && vm.stack_spec().cells() == old(vm).stack_spec().cells() && vm.stack_spec().sp_spec() == old(vm).stack_spec().sp_spec() - 1),'''},
            'loop_count': 1,
            'inserts': [
                {'anchor': 'if argc == 1 {', 'where': 'before', 'text': 'let ghost r1 = result;'},
                {'anchor': 'Ok(VCell::Number(result))', 'where': 'before', 'text': '''proof {
                    if argc == 1 && is_exact(result) {
                        match cell_number(old(vm).heap_spec(), arg(*old(vm), 1)) {
                            Some(x) => {
                                assert(vden(r1) > 0);
                                assert(vnum(r1) * vden(x) == vnum(x) * vden(r1)) by (nonlinear_arith) requires is_diff(r1, x, Number::Fixnum(0i64));
                                assert(vnum(result) * vden(r1) == -vnum(r1) * vden(result)) by (nonlinear_arith) requires is_prod(result, r1, Number::Fixnum(-1i64));
                                lemma_neg_value(vnum(x), vden(x), vnum(r1), vden(r1), vnum(result), vden(result));
                            }
                            None => {}
                        }
                    }
                }'''},
            ],
        },
        '::divide': {'props': N, 'requires': REQ},
        '::quotient': {'props': N, 'requires': REQ},
        '::remainder': {'props': N, 'requires': REQ},
        # ::modulo is not under contract: Number::modulo needs `!(Float, BigInt)` (closure results are opaque to Verus), which the
        # procedure cannot establish for (modulo 5.0 <bignum>)
        '::expt': {'props': N, 'requires': REQ},
    },
}]
