"""Unit `builtin_number`: marwood/src/vm/builtin/number.rs — argument guards of the numeric procedures (C08, C06)."""

PRELUDE = r'''
use crate::vm::builtin::*;
use crate::number::*;
/// `n.is_zero()` is `n == 0` (Kani harnesses num_is_zero_* check it on the real code for exact numbers)
pub assume_specification [Number::is_zero] (n: &Number) -> (r: bool) ensures is_exact(*n) ==> r == (vnum(*n) == 0);
pub assume_specification [Number::to_u32] (n: &Number) -> (r: Option<u32>);
impl vstd::std_specs::convert::FromSpecImpl<Number> for VCell {
    open spec fn obeys_from_spec() -> bool { true }
    open spec fn from_spec(v: Number) -> VCell { VCell::Number(v) }
}
'''

N = ['C08', 'C06']
REQ = ['old(vm).stack_spec().wf()']
UNITS = [{
    # second unit on vm/builtin/mod.rs, active only together with unit `number` (needs its value model)
    'name': 'builtin_mod_num',
    'file': 'src/vm/builtin/mod.rs',
    'uses_types': ['VCell', 'Error', 'Heap'],
    'prelude': 'use crate::number::{is_exact, is_int};',
    'fns': {
        '::pop_integer': {
            'props': N, 'requires': REQ,
            'ensures': [
                (N, 'r is Ok ==> popped(*old(vm), *final(vm), 1)'),
                # only integers get through: exact non-integers are rejected here, so the integer procedures meet the domain of % and quotient
                (N, 'r matches Ok(n) ==> old(vm).stack_spec().sp_spec() > 0 && cell_number(old(vm).heap_spec(), arg(*old(vm), 0)) == Some(n) && (is_exact(n) ==> is_int(n))'),
                (N, 'r is Err ==> final(vm).stack_spec().wf()'),
            ],
        },
    },
}, {
    'name': 'builtin_number',
    'file': 'src/vm/builtin/number.rs',
    'uses_types': ['VCell', 'Error', 'Heap'],
    'prelude': PRELUDE,
    'fns': {
        # each procedure establishes the precondition of the Number operation it calls (non-zero divisor, integer operands):
        # removing or weakening a guard fails the callee's precondition here
        '::divide': {'props': N, 'requires': REQ},
        '::quotient': {'props': N, 'requires': REQ},
        '::remainder': {'props': N, 'requires': REQ},
        # ::modulo is not under contract: Number::modulo needs `!(Float, BigInt)` (closure results are opaque to Verus), which the
        # procedure cannot establish for (modulo 5.0 <bignum>)
        '::expt': {'props': N, 'requires': REQ},
    },
}]
