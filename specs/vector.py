"""Unit `vector`: marwood/src/vm/vector.rs, the payload of Scheme vectors (C14).

The builtins (groups `builtins`, `heap`; Vector opaque there) ASSUME the models below over the uninterpreted view `vector_view`;
here the same texts are instantiated over the real representation (the RefCell's contents) and PROVED on the real bodies of
new / len / get / clone_vector.  put / push go through RefCell::borrow_mut (a RefMut whose drop publishes the store: outside what
Verus models) and stay assumed.
"""

LEN_MODEL = 'r == VIEW(*v).len()'
GET_MODEL = ['i < VIEW(*v).len() ==> r == Some(VIEW(*v)[i as int])', 'i >= VIEW(*v).len() ==> r is None']
NEW_MODEL = 'VIEW(r) == x@'
# clone_vector slices `start ..= end` after clamping: a start beyond end + 1 makes the slice expression panic
CLONE_REQ = 'end matches Some(e) ==> (match start { Some(s) => s as int, None => 0int }) <= e + 1'
CLONE_MODEL = [
    # clone_vector clamps both bounds and treats `end` as inclusive (pinned by the suite); an empty vector yields an empty copy
    'end is None && (start matches Some(s) ==> s <= VIEW(*v).len()) ==> r@ == VIEW(*v).subrange((match start { Some(s) => s as int, None => 0int }), VIEW(*v).len() as int)',
    'VIEW(*v).len() == 0 ==> r@.len() == 0',
    '''VIEW(*v).len() > 0 ==> r@ == VIEW(*v).subrange(
            (match start { Some(s) => if s > VIEW(*v).len() { VIEW(*v).len() as int } else { s as int }, None => 0int }),
            (match end { Some(e) => if e >= VIEW(*v).len() { VIEW(*v).len() as int } else { e + 1 }, None => VIEW(*v).len() as int }))''',
]


def inst(text, view, **names):
    import re
    out = text.replace('VIEW', view)
    for k, v in names.items():
        out = re.sub(r'\b%s\b' % re.escape(k), v, out)
    return out


def assumed_decl(view):
    """the assume_specification block for groups where Vector is opaque"""
    V = 'crate::vm::vector::Vector'
    C = 'crate::vm::vcell::VCell'
    j = lambda xs: ', '.join(inst(x, view) for x in xs)
    return '''
/// contents of the interior-mutable vector payload (opaque type); `vector_written` records a store:
/// it can only be established by a call of Vector::put with exactly that index and value.
/// The models of len / get / new / clone_vector are one text (specs/vector.py) that unit `vector` proves on the real bodies.
pub uninterp spec fn %(view)s(v: %(V)s) -> Seq<%(C)s>;
pub uninterp spec fn vector_written(v: %(V)s, i: int, x: %(C)s) -> bool;
pub assume_specification [%(V)s::len] (v: &%(V)s) -> (r: usize) ensures %(len)s;
pub assume_specification [%(V)s::get] (v: &%(V)s, i: usize) -> (r: Option<%(C)s>)
    ensures %(get)s;
/// put silently ignores an out-of-range index: the precondition makes every call site prove the index is in range
pub assume_specification [%(V)s::put] (v: &%(V)s, i: usize, x: %(C)s)
    requires i < %(view)s(*v).len() ensures vector_written(*v, i as int, x);
pub assume_specification [%(V)s::new] (x: Vec<%(C)s>) -> (r: %(V)s) ensures %(new)s;
pub assume_specification [%(V)s::clone_vector] (v: &%(V)s, start: Option<usize>, end: Option<usize>) -> (r: Vec<%(C)s>)
    requires %(creq)s
    ensures %(clone)s;
''' % {'view': view, 'V': V, 'C': C, 'len': inst(LEN_MODEL, view), 'get': j(GET_MODEL), 'new': inst(NEW_MODEL, view),
       'creq': inst(CLONE_REQ, view), 'clone': j(CLONE_MODEL)}


PRELUDE = r'''
#[verifier::external_type_specification] #[verifier::external_body] #[verifier::reject_recursive_types(T)] pub struct ExRef<'b, T: ?Sized>(core::cell::Ref<'b, T>);
/// contents of a RefCell / of a shared borrow of it.  Assumed (std): borrow() hands out the current contents; no RefMut is alive in
/// these functions (a live one would make borrow() panic, which is outside the model)
pub uninterp spec fn cell_view<T: ?Sized>(c: &RefCell<T>) -> &T;
pub uninterp spec fn ref_view<'a, T: ?Sized>(c: core::cell::Ref<'a, T>) -> &'a T;
pub assume_specification<T: ?Sized> [core::cell::RefCell::<T>::borrow] (c: &RefCell<T>) -> (r: core::cell::Ref<'_, T>) ensures ref_view(r) == cell_view(c);
pub assume_specification<'a, 'b, T: ?Sized> [<core::cell::Ref<'a, T> as core::ops::Deref>::deref] (x: &'b core::cell::Ref<'a, T>) -> (r: &'b T) ensures r == ref_view(*x);
pub assume_specification<T> [core::cell::RefCell::<T>::new] (x: T) -> (r: RefCell<T>) ensures *cell_view(&r) == x;
pub assume_specification<'a, T: Clone> [<Vec<T> as From<&'a [T]>>::from] (s: &[T]) -> (r: Vec<T>) ensures r@ == s@;
/// the view the builtins reason with, on the real representation
pub open spec fn m_view(v: Vector) -> Seq<VCell> { v.view_spec() }
impl Vector {
    pub closed spec fn view_spec(&self) -> Seq<VCell> { cell_view(&self.vector)@ }
}
'''

V = ['C14']
UNITS = [{
    'name': 'vector',
    'file': 'src/vm/vector.rs',
    'wrap': ['struct Vector'],
    'wraps_types': ['Vector'],
    'uses_types': ['VCellO', 'RefCell'],
    'prelude': PRELUDE,
    'fns': {
        'impl Vector::new': {'props': V + ['C06'], 'ensures': [(V, inst(NEW_MODEL, 'm_view', x='vector'))]},
        'impl Vector::len': {'props': V + ['C06'], 'ensures': [(V, inst(LEN_MODEL, 'm_view', v='self'))]},
        'impl Vector::is_empty': {'props': ['C06'], 'ensures': [(['C06'], 'r == (m_view(*self).len() == 0)')]},  # no builtin under contract calls it
        'impl Vector::get': {'props': V + ['C06'], 'ensures': [(V, inst(t, 'm_view', v='self', i='index')) for t in GET_MODEL]},
        'impl Vector::clone_vector': {
            'props': V + ['C06'],
            'requires': [inst(CLONE_REQ, 'm_view')],
            'ensures': [(V, inst(t, 'm_view', v='self')) for t in CLONE_MODEL],
        },
    },
}]
