"""Unit `lexenv`: marwood/src/vm/environment.rs, LexicalEnvironment -- the slots of a closure environment (C03: the collector walks them).

The collector (unit `heap`, LexicalEnvironment opaque there) ASSUMES the models below over the uninterpreted view `env_view`; here the
same texts are instantiated over the RefCell's contents and PROVED on the real bodies of new / slot_len / get.  put goes through
RefCell::borrow_mut and stays out of reach.  The RefCell / Ref specifications are the assumed ones of unit `vector` (same text).
"""
import os, sys
sys.path.insert(0, os.path.dirname(os.path.abspath(__file__)))
import importlib
import vector as _v
importlib.reload(_v)

SLOT_LEN_MODEL = 'r == VIEW(*e).len()'
GET_REQ = 'i < VIEW(*e).len()'
GET_MODEL = 'r == VIEW(*e)[i as int]'


def assumed_decl(view):
    E = 'crate::vm::environment::LexicalEnvironment'
    C = 'crate::vm::vcell::VCell'
    return '''
/// slots of a closure environment (opaque, interior-mutable).  The models of slot_len / get are one text (specs/lexenv.py) that unit
/// `lexenv` proves on the real bodies
pub uninterp spec fn %(view)s(e: %(E)s) -> Seq<%(C)s>;
pub assume_specification [%(E)s::slot_len] (e: &%(E)s) -> (r: usize) ensures %(len)s;
pub assume_specification [%(E)s::get] (e: &%(E)s, i: usize) -> (r: %(C)s)
    requires %(greq)s ensures %(get)s;
''' % {'view': view, 'E': E, 'C': C, 'len': _v.inst(SLOT_LEN_MODEL, view), 'greq': _v.inst(GET_REQ, view), 'get': _v.inst(GET_MODEL, view)}


# the RefCell part of unit vector's prelude (ExRef, cell_view, ref_view, borrow, deref, RefCell::new)
_REFCELL = _v.PRELUDE[:_v.PRELUDE.index('pub assume_specification<\'a, T: Clone> [<Vec<T> as From')]
PRELUDE = _REFCELL + r'''
/// VCell is opaque in this unit
pub assume_specification [crate::vm::vcell::VCell::undefined] () -> (r: crate::vm::vcell::VCell);
pub open spec fn m_env(e: LexicalEnvironment) -> Seq<VCell> { e.slots_view() }
impl LexicalEnvironment {
    pub closed spec fn slots_view(&self) -> Seq<VCell> { cell_view(&self.slots)@ }
}
'''

X = ['C03']
UNITS = [{
    'name': 'lexenv',
    'file': 'src/vm/environment.rs',
    'wrap': ['struct LexicalEnvironment'],
    'wraps_types': ['LexicalEnvironment'],
    'uses_types': ['VCellO', 'RefCell'],
    'prelude': PRELUDE,
    'fns': {
        'impl LexicalEnvironment::new': {'props': ['C06'], 'ensures': [(['C06'], 'm_env(r).len() == size')]},  # not on the collector chain
        'impl LexicalEnvironment::slot_len': {'props': X + ['C06'], 'ensures': [(X, _v.inst(SLOT_LEN_MODEL, 'm_env', e='self'))]},
        'impl LexicalEnvironment::get': {'props': X + ['C06'], 'requires': [_v.inst(GET_REQ, 'm_env', e='self', i='index')],
                                          'ensures': [(X, _v.inst(GET_MODEL, 'm_env', e='self', i='index'))]},
    },
}]
