"""Unit `vcell`: marwood/src/vm/vcell.rs — the trivial constructors / accessors other units call (verified, not assumed)."""

UNITS = [{
    'name': 'vcell',
    'file': 'src/vm/vcell.rs',
    'uses_types': ['VCell', 'Error'],
    'prelude': '''
pub assume_specification [VCell::type_text] (v: &VCell) -> (r: &'static str);
''',
    'fns': {
        'impl VCell::undefined': {'props': [], 'ensures': ['r == VCell::Undefined']},
        'impl VCell::ptr': {'props': [], 'ensures': ['r == VCell::Ptr(val)']},
        'impl VCell::pair': {'props': [], 'ensures': ['r == VCell::Pair(car, cdr)']},
    },
}]
