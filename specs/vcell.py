"""(the as_* accessors mention `&str` consts Verus cannot ingest: pre-rewrite str_consts routes each mention through an
external_body function returning that very const, so as_ptr / as_argc / as_car / as_cdr are VERIFIED here; the Kani harness
vcell_accessors checks them a second time on the untouched text.  is_nil compares with the derived `==` and stays assumed + Kani-checked)
Unit `vcell`: marwood/src/vm/vcell.rs — the trivial constructors / accessors other units call (verified, not assumed)."""

T = ['C14', 'C06']
F = ['C04', 'C05', 'C06']
UNITS = [{
    'name': 'vcell',
    'file': 'src/vm/vcell.rs',
    'uses_types': ['VCell', 'Error'],
    'prelude': """
pub assume_specification [VCell::type_text] (v: &VCell) -> (r: &'static str);
#[verifier::external_body] pub fn verif_const_PTR_TYPE_TEXT() -> (r: &'static str) { PTR_TYPE_TEXT }
#[verifier::external_body] pub fn verif_const_ARGUMENT_COUNT_TYPE_TEXT() -> (r: &'static str) { ARGUMENT_COUNT_TYPE_TEXT }
#[verifier::external_body] pub fn verif_const_PAIR_TYPE_TEXT() -> (r: &'static str) { PAIR_TYPE_TEXT }
#[verifier::external_body] pub fn verif_const_INSTRUCTION_POINTER_TYPE_TEXT() -> (r: &'static str) { INSTRUCTION_POINTER_TYPE_TEXT }
#[verifier::external_body] pub fn verif_const_BASE_POINTER_TYPE_TEXT() -> (r: &'static str) { BASE_POINTER_TYPE_TEXT }
#[verifier::external_body] pub fn verif_const_ENVIRONMENT_POINTER_TYPE_TEXT() -> (r: &'static str) { ENVIRONMENT_POINTER_TYPE_TEXT }
""",
    'fns': {
        'impl VCell::undefined': {'props': [], 'ensures': ['r == VCell::Undefined']},
        'impl VCell::void': {'props': [], 'ensures': ['r == VCell::Void']},
        'impl VCell::ptr': {'props': [], 'ensures': ['r == VCell::Ptr(val)']},
        'impl VCell::pair': {'props': [], 'ensures': ['r == VCell::Pair(car, cdr)']},
        'impl VCell::is_boolean': {'props': [], 'ensures': ['r == (*self is Bool)']},
        'impl VCell::is_number': {'props': [], 'ensures': ['r == (*self is Number)']},
        'impl VCell::is_string': {'props': [], 'ensures': ['r == (*self is String)']},
        'impl VCell::is_char': {'props': [], 'ensures': ['r == (*self is Char)']},
        'impl VCell::is_symbol': {'props': [], 'ensures': ['r == (*self is Symbol)']},
        'impl VCell::is_ptr': {'props': [], 'ensures': ['r == (*self is Ptr)']},
        'impl VCell::is_envslot': {'props': [], 'ensures': ['r == (*self is GlobalEnvSlot)']},
        'impl VCell::is_opcode': {'props': [], 'ensures': ['r == (*self is OpCode)']},
        'impl VCell::is_lexical_env': {'props': [], 'ensures': ['r == (*self is LexicalEnv)']},
        'impl VCell::is_macro': {'props': [], 'ensures': ['r == (*self is Macro)']},
        'impl VCell::is_vector': {'props': [], 'ensures': ['r == (*self is Vector)']},
        'impl VCell::is_pair': {'props': T, 'ensures': ['r == (*self is Pair)']},
        'impl VCell::is_lambda': {'props': [], 'ensures': ['r == (*self is Lambda)']},
        'impl VCell::is_closure': {'props': [], 'ensures': ['r == (*self is Closure)']},
        'impl VCell::is_continuation': {'props': [], 'ensures': ['r == (*self is Continuation)']},
        'impl VCell::is_builtin_proc': {'props': [], 'ensures': ['r == (*self is BuiltInProc)']},
        'impl VCell::is_procedure': {'props': [], 'ensures': ['r == (*self is Lambda || *self is Closure || *self is BuiltInProc || *self is Continuation)']},
        'impl VCell::is_nil': {'props': T, 'trusted': True, 'ensures': ['r == (*self is Nil)']},
        'impl VCell::as_ptr': {'props': T, 'pre_rewrites': ['str_consts'], 'ensures': ['*self matches VCell::Ptr(p) ==> r == Ok::<usize, Error>(p)', '!(*self is Ptr) ==> r is Err']},
        'impl VCell::as_argc': {'props': T, 'pre_rewrites': ['str_consts'], 'ensures': ['*self matches VCell::ArgumentCount(n) ==> r == Ok::<usize, Error>(n)', '!(*self is ArgumentCount) ==> r is Err']},
        # the frame words RET / restore paths read back (run_one, group runone)
        'impl VCell::as_ip': {'props': F, 'pre_rewrites': ['str_consts'], 'ensures': ['*self matches VCell::InstructionPointer(a, b) ==> r == Ok::<(usize, usize), Error>((a, b))', '!(*self is InstructionPointer) ==> r is Err']},
        'impl VCell::as_ep': {'props': F, 'pre_rewrites': ['str_consts'], 'ensures': ['*self matches VCell::EnvironmentPointer(p) ==> r == Ok::<usize, Error>(p)', '!(*self is EnvironmentPointer) ==> r is Err']},
        'impl VCell::as_bp': {'props': F, 'pre_rewrites': ['str_consts'], 'ensures': ['*self matches VCell::BasePointer(p) ==> r == Ok::<usize, Error>(p)', '!(*self is BasePointer) ==> r is Err']},
        'impl VCell::as_car': {'props': T, 'pre_rewrites': ['str_consts'], 'ensures': ['*self matches VCell::Pair(a, d) ==> r == Ok::<VCell, Error>(VCell::Ptr(a))', '!(*self is Pair) ==> r is Err']},
        'impl VCell::as_cdr': {'props': T, 'pre_rewrites': ['str_consts'], 'ensures': ['*self matches VCell::Pair(a, d) ==> r == Ok::<VCell, Error>(VCell::Ptr(d))', '!(*self is Pair) ==> r is Err']},
    },
}]
