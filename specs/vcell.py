"""(the as_* accessors mention `&str` consts Verus cannot ingest: their contracts are assumed here and discharged by the
Kani harness vcell_accessors)
Unit `vcell`: marwood/src/vm/vcell.rs — the trivial constructors / accessors other units call (verified, not assumed)."""

T = ['C14', 'C06']
UNITS = [{
    'name': 'vcell',
    'file': 'src/vm/vcell.rs',
    'uses_types': ['VCell', 'Error'],
    'prelude': """
pub assume_specification [VCell::type_text] (v: &VCell) -> (r: &'static str);
""",
    'fns': {
        'impl VCell::undefined': {'props': [], 'ensures': ['r == VCell::Undefined']},
        'impl VCell::ptr': {'props': [], 'ensures': ['r == VCell::Ptr(val)']},
        'impl VCell::pair': {'props': [], 'ensures': ['r == VCell::Pair(car, cdr)']},
        'impl VCell::is_boolean': {'props': [], 'ensures': ['r == (*self is Bool)']},
        'impl VCell::is_number': {'props': [], 'ensures': ['r == (*self is Number)']},
        'impl VCell::is_string': {'props': [], 'ensures': ['r == (*self is String)']},
        'impl VCell::is_char': {'props': [], 'ensures': ['r == (*self is Char)']},
        'impl VCell::is_symbol': {'props': [], 'ensures': ['r == (*self is Symbol)']},
        'impl VCell::is_ptr': {'props': [], 'ensures': ['r == (*self is Ptr)']},
        'impl VCell::is_envslot': {'props': [], 'ensures': ['r == (*self is GlobalEnvSlot)']},
        'impl VCell::is_opcode': {'props': [], 'ensures': ['r == (*self is OpCode)']},
        'impl VCell::is_lexical_env': {'props': [], 'ensures': ['r == (*self is LexicalEnv)']},
        'impl VCell::is_macro': {'props': [], 'ensures': ['r == (*self is Macro)']},
        'impl VCell::is_vector': {'props': [], 'ensures': ['r == (*self is Vector)']},
        'impl VCell::is_pair': {'props': T, 'ensures': ['r == (*self is Pair)']},
        'impl VCell::is_lambda': {'props': [], 'ensures': ['r == (*self is Lambda)']},
        'impl VCell::is_closure': {'props': [], 'ensures': ['r == (*self is Closure)']},
        'impl VCell::is_continuation': {'props': [], 'ensures': ['r == (*self is Continuation)']},
        'impl VCell::is_builtin_proc': {'props': [], 'ensures': ['r == (*self is BuiltInProc)']},
        'impl VCell::is_procedure': {'props': [], 'ensures': ['r == (*self is Lambda || *self is Closure || *self is BuiltInProc || *self is Continuation)']},
        'impl VCell::is_nil': {'props': T, 'trusted': True, 'ensures': ['r == (*self is Nil)']},
        'impl VCell::as_ptr': {'props': T, 'trusted': True, 'ensures': ['*self matches VCell::Ptr(p) ==> r == Ok::<usize, Error>(p)', '!(*self is Ptr) ==> r is Err']},
        'impl VCell::as_argc': {'props': T, 'trusted': True, 'ensures': ['*self matches VCell::ArgumentCount(n) ==> r == Ok::<usize, Error>(n)', '!(*self is ArgumentCount) ==> r is Err']},
        'impl VCell::as_car': {'props': T, 'trusted': True, 'ensures': ['*self matches VCell::Pair(a, d) ==> r == Ok::<VCell, Error>(VCell::Ptr(a))', '!(*self is Pair) ==> r is Err']},
        'impl VCell::as_cdr': {'props': T, 'trusted': True, 'ensures': ['*self matches VCell::Pair(a, d) ==> r == Ok::<VCell, Error>(VCell::Ptr(d))', '!(*self is Pair) ==> r is Err']},
    },
}]
