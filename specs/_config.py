"""Registry: external type declarations, unit groups, property -> groups."""

# emitted (in lib.rs) for every type a unit uses that no active unit wraps
TYPE_EXT = {
    'Heap': '#[verifier::external_type_specification] #[verifier::external_body] pub struct ExHeap(crate::vm::heap::Heap);',
    'Stack': '#[verifier::external_type_specification] #[verifier::external_body] pub struct ExStack(crate::vm::stack::Stack);',
    'GlobalEnvironment': '#[verifier::external_type_specification] #[verifier::external_body] pub struct ExGlobalEnvironment(crate::vm::environment::GlobalEnvironment);',
    'StackTrace': '#[verifier::external_type_specification] #[verifier::external_body] pub struct ExStackTrace(crate::vm::trace::StackTrace);',
    'VCell': '''#[verifier::external_type_specification] #[verifier::external_body] pub struct ExVCell(crate::vm::vcell::VCell);
pub assume_specification [<crate::vm::vcell::VCell as Clone>::clone] (a: &crate::vm::vcell::VCell) -> (r: crate::vm::vcell::VCell) ensures r == *a;''',
    'Cell': '#[verifier::external_type_specification] #[verifier::external_body] pub struct ExCell(crate::cell::Cell);',
    'Error': '#[verifier::external_type_specification] #[verifier::external_body] pub struct ExError(crate::error::Error);',
}

# verus groups: one Verus run each
GROUPS = {
    'num': ['number'],
    'run': ['vm_struct', 'run'],
}

PROPS = {
    'C08': {'groups': ['num'], 'search': 'search_num',
            'assumptions': [
                'assumed specifications of num-bigint 0.4.4 / num-rational 0.4.1 / num-traits / core functions listed in trusted_base (written from their sources)',
                'Ratio<i32> values are in lowest terms with a positive denominator (invariant of every constructor marwood calls)',
                'f64 arithmetic is uninterpreted: the 2^-50 relative error bound of inexact fallbacks is not decided',
                'machine integers are NOT treated as mathematical: Verus checks i64/i32/u32 overflow bit-exactly',
                'results built inside closures passed to Option::map (float arms of quotient / %) are opaque to Verus',
            ]},
    'C13': {'groups': ['run'], 'search': 'search_run',
            'assumptions': [
                'run_one is a deterministic function of the observable machine state (heap, globals, stack, acc, ep, ip, bp): step_obs/step_kind/step_err are uninterpreted and run_one is assumed to implement them (its body is not verified here)',
                'run_gc leaves the observable state unchanged (this is property C03, assumed for C13)',
                'output and global effects happen inside run_one, i.e. are part of the step function; equal step sequences give equal effects',
                'Vm::run() = run_count(usize::MAX).map(unwrap): the closure is opaque to Verus, the equality run == one slice of budget usize::MAX is by reading',
                'prepare_eval is not under contract (compiler); rand/time builtins excluded by the property',
            ]},
    'C09': {'groups': ['num'], 'search': 'search_num',
            'assumptions': [
                'assumed specifications of BigInt / Ratio comparison (axiom_big_eq, axiom_big_cmp, axiom_r32_eq, axiom_r32_cmp) as the mathematical order of their values',
                'comparisons in which one operand is a Float are not decided (exec `as f64` casts are havoc to Verus): only panic-freedom of those arms is proved',
            ]},
}
