"""Registry: external type declarations, unit groups, property -> groups."""

# emitted (in lib.rs) for every type a unit uses that no active unit wraps
def _opaque(name, path):
    return '#[verifier::external_type_specification] #[verifier::external_body] pub struct Ex%s(%s);' % (name, path)


import importlib as _il, os as _os, sys as _sys
_sys.path.insert(0, _os.path.dirname(_os.path.abspath(__file__)))
import vector as _vector_spec
_il.reload(_vector_spec)
import lexenv as _lexenv_spec
_il.reload(_lexenv_spec)

TYPE_EXT = {
    'Heap': {'decl': _opaque('Heap', 'crate::vm::heap::Heap')},
    'Stack': {'decl': _opaque('Stack', 'crate::vm::stack::Stack')},
    'GlobalEnvironment': {'decl': _opaque('GlobalEnvironment', 'crate::vm::environment::GlobalEnvironment')},
    'GcMap': {'decl': _opaque('GcMap', 'crate::vm::gc::Map')},
    'StackTrace': {'decl': _opaque('StackTrace', 'crate::vm::trace::StackTrace')},
    'Cell': {'decl': _opaque('Cell', 'crate::cell::Cell')},
    'Error': {'decl': '#[verifier::external_type_specification] pub struct ExError(crate::error::Error);', 'needs': ['Cell', 'ParseError', 'LexError']},
    'ParseError': {'decl': _opaque('ParseError', 'crate::parse::Error')},
    'LexError': {'decl': _opaque('LexError', 'crate::lex::Error')},
    'Number': {'decl': _opaque('Number', 'crate::number::Number')},
    'Vector': {'decl': _opaque('Vector', 'crate::vm::vector::Vector')},
    'Continuation': {'decl': _opaque('Continuation', 'crate::vm::continuation::Continuation')},
    # Lambda has only public fields: transparent (the collector walks bc / args / envmap)
    'Lambda': {'decl': '#[verifier::external_type_specification] pub struct ExLambda(crate::vm::lambda::Lambda);', 'needs': ['EnvironmentMap', 'Cell', 'VCell']},
    'EnvironmentMap': {'decl': _opaque('EnvironmentMap', 'crate::vm::environment::EnvironmentMap')},
    'BindingSource': {'decl': _opaque('BindingSource', 'crate::vm::environment::BindingSource')},
    'LexicalEnvironment': {'decl': _opaque('LexicalEnvironment', 'crate::vm::environment::LexicalEnvironment')},
    'Transform': {'decl': _opaque('Transform', 'crate::vm::transform::Transform')},
    'BuiltInProc': {'decl': _opaque('BuiltInProc', 'crate::vm::vcell::BuiltInProc')},
    'OpCode': {'decl': _opaque('OpCode', 'crate::vm::opcode::OpCode')},
    # transparent variants (unit `compile` matches on the datum and compares opcodes); each replaces the opaque declaration
    'CellT': {'decl': '#[verifier::external_type_specification] pub struct ExCell(crate::cell::Cell);', 'needs': ['Number'], 'replaces': ['Cell']},
    'OpCodeT': {'decl': '#[verifier::external_type_specification] pub struct ExOpCode(crate::vm::opcode::OpCode);', 'replaces': ['OpCode']},
    'BindingLocation': {'decl': '#[verifier::external_type_specification] pub struct ExBindingLocation(crate::vm::environment::BindingLocation);'},
    # opaque VCell (unit `vector`: a transparent VCell would be recursive through the RefCell of the wrapped Vector)
    'VCellO': {'decl': '''#[verifier::external_type_specification] #[verifier::external_body] pub struct ExVCell(crate::vm::vcell::VCell);
pub assume_specification [<crate::vm::vcell::VCell as Clone>::clone] (a: &crate::vm::vcell::VCell) -> (r: crate::vm::vcell::VCell) ensures r == *a;''', 'replaces': ['VCell']},
    'VectorView': {'needs': ['Vector', 'VCell'], 'decl': _vector_spec.assumed_decl('vector_view')},
    'EnvView': {'needs': ['LexicalEnvironment', 'VCell'], 'decl': _lexenv_spec.assumed_decl('env_view')},
    'RcAsRef': {'decl': 'pub assume_specification<T: ?Sized, A: core::alloc::Allocator> [<std::rc::Rc<T, A> as AsRef<T>>::as_ref] (x: &std::rc::Rc<T, A>) -> (r: &T) ensures r == &**x;'},
    'RcDeref': {'decl': 'pub assume_specification<T: ?Sized, A: core::alloc::Allocator> [<std::rc::Rc<T, A> as core::ops::Deref>::deref] (x: &std::rc::Rc<T, A>) -> (r: &T) ensures r == &**x;'},
    'RefCell': {'decl': '#[verifier::external_type_specification] #[verifier::external_body] #[verifier::reject_recursive_types(T)] pub struct ExRefCell<T: ?Sized>(core::cell::RefCell<T>);'},
    # VCell is transparent (variants visible to contracts); its payload types are opaque
    'VCell': {'decl': '''#[verifier::external_type_specification] pub struct ExVCell(crate::vm::vcell::VCell);
pub assume_specification [<crate::vm::vcell::VCell as Clone>::clone] (a: &crate::vm::vcell::VCell) -> (r: crate::vm::vcell::VCell) ensures r == *a;''',
              'needs': ['Number', 'Vector', 'Continuation', 'Lambda', 'LexicalEnvironment', 'Transform', 'BuiltInProc', 'OpCode', 'RefCell']},
}

# verus groups: one Verus run each
GROUPS = {
    'num': ['number'],
    'run': ['vm_struct', 'run'],
    'gc': ['gc'],
    'heap': ['gc', 'vcell', 'stack', 'vm_struct', 'continuation', 'heap'],
    'stack': ['vcell', 'stack'],
    'globenv': ['vcell', 'globenv'],
    'vector': ['vector'],
    'lexenv': ['lexenv'],
    'trace': ['vcell', 'stack', 'trace'],
    'gcroots': ['vcell', 'stack', 'globenv', 'heap_model', 'vm_struct', 'continuation', 'run_gc'],
    'cont': ['vcell', 'stack', 'vm_struct', 'continuation', 'builtin_mod', 'builtin_procedure'],
    'builtins': ['vcell', 'stack', 'vm_struct', 'builtin_mod', 'builtin_vector', 'builtin_list'],
    'compile': ['vcell', 'vm_struct', 'vm_prepare', 'lambda', 'compile', 'builtin_procedure_eval'],
    'runone': ['vcell', 'stack', 'vm_struct', 'continuation', 'run_one'],
    'numbuiltins': ['number', 'vcell', 'stack', 'vm_struct', 'builtin_mod', 'builtin_mod_num', 'builtin_number'],
}

PROPS = {
    'C08': {'groups': ['numbuiltins'], 'search': 'search_num',
            'assumptions': [
                'assumed specifications of num-bigint 0.4.4 / num-rational 0.4.1 / num-traits / core functions listed in trusted_base (written from their sources)',
                'Ratio<i32> values are in lowest terms with a positive denominator (invariant of every constructor marwood calls)',
                'f64 arithmetic is uninterpreted: the 2^-50 relative error bound of inexact fallbacks is not decided',
                'machine integers are NOT treated as mathematical: Verus checks i64/i32/u32 overflow bit-exactly',
                'results built inside closures passed to Option::map (float arms of quotient / %) are opaque to Verus',
                'the variadic procedures +, * and - are verified ((- x y ...) is x minus the sum of all the others; a non-number FIRST argument of - is silently skipped by the code -- (- (quote a) 1) answers 1 -- which no claimed property speaks about): for + and * an exact answer is exactly the sum / product of ALL arguments, each of which then was exact (args_sum / args_prod, step lemmas); abs / floor / ceiling / truncate / numerator / denominator hand their argument to the Number operation of the same name and return its answer; min / max / the comparison procedures are not under contract (provided trait methods `<`, `>` cannot be specified in this Verus; num_comp takes a closure)', 'divide / quotient / remainder also carry value postconditions over their two (or one) arguments in the right order; the procedures divide / quotient / remainder / expt (vm/builtin/number.rs) are verified to establish the preconditions of the Number operations they call (non-zero divisor, integer operands); pop_number / pop_integer are verified; expt also carries a value postcondition (x^e for the integer e that was passed); Number::numerator / denominator are verified for exact arguments (a stored rational is in lowest terms); Number::is_zero / to_u32 carry assumed contracts (is_zero is checked by Kani harnesses under C09); the modulo procedure is under contract for a first argument that is not a float (Number::modulo needs that: closure results in the float arms are opaque)',
            ]},
    'C03': {'groups': ['heap', 'gcroots', 'lexenv'], 'search': 'search_heap',
            'kani': [
                {'harness': 'gc_state_from_u8', 'file': 'src/vm/gc.rs', 'kind': 'complete', 'what': 'State::from(u8) is the inverse of State::bits on 0..=2 (all bytes)'},
                {'harness': 'gc_map_get', 'file': 'src/vm/gc.rs', 'kind': 'complete', 'what': 'Map::get returns the 2-bit field of the addressed cell for every byte content and index (map of 3 bytes), None past capacity: discharges the contract Verus assumes for Map::get'},
                {'harness': 'gc_map_new_resize', 'file': 'src/vm/gc.rs', 'kind': 'bounded', 'bound': 'maps of at most 16 cells', 'what': 'Map::new / Map::resize: capacity, new cells free, old cells kept (contracts assumed on the Verus side)'},
            ],
            'assumptions': [
                'scope: the collector mechanisms of heap.rs / gc.rs (Map, alloc, free, put, sweep, mark, mark_vcell); root enumeration in Vm::run_gc and the claim that run_one never dereferences a free cell are NOT decided',
                'termination of mark / mark_vcell is not proved (exec_allows_no_decreases_clause)',
                'Heap::grow (f64 growth policy) and Map::get (Verus ICE on a shift inside a closure; covered completely by the Kani harness gc_map_get): contracts assumed on the Verus side; Map::new / resize are verified (their assert_eq!(size % 4, 0) is pre-rewritten into a branch Verus proves dead; the bounded Kani harness still runs as a cross-check); LexicalEnvironment::slot_len / get: the text the collector assumes over env_view is proved on the real bodies in unit lexenv (RefCell::borrow / Ref::deref assumed); mark_continuation is verified: it walks the saved stack through the opaque iterator of Stack::iter (contract proved in unit stack, same group), then marks the saved ip and ep; cont_kid is defined over the views of unit continuation (same group), whose getters are verified',
                'payload views vector_view/env_view and the child relations cont_kid/lambda_kid/vkid are uninterpreted; axiom_vkids defines vkid by cases (trusted)',
                'interior-mutable payloads (Vector, LexicalEnvironment) are treated as values: nothing mutates them during a collection', 'root enumeration (group gcroots): Vm::run_gc is verified to have marked, at the point where it calls sweep, the symbol of every global binding, the object of every global slot, whatever the live stack slots 0..=sp refer to, the accumulator, the code object of %ip and %ep, with the marked set closed under children (mark_ok since entry), and to leave stack, registers, accumulator and globals alone.  Its three `.for_each(|it| ..)` statements (closures capturing &mut self.heap, which Verus refuses) are desugared mechanically into the for loops they are defined to be, `.filter_map(|it| F).for_each(..)` into `for it in .. { if let Some(it) = F { .. } }` (pre-rewrite for_each_loops); the two f64 utilisation comparisons become an unspecified boolean of their operands (pre-rewrite f64_gates: Verus has no usize -> f64 cast), so run_gc is verified for both outcomes of each gate.  Stack::iter_to_sp and GlobalEnvironment::iter_bindings / iter_slots are verified in the same group (exactly the live slots; every bound symbol; every slot).  Heap is OPAQUE in this group: Heap::mark / mark_vcell are declared with the very clause texts unit heap proves on the real bodies (specs/heap_model.py imports specs/heap_mark.py), over uninterpreted views.  Assumed: Heap::sweep is callable at that point -- unit heap verifies sweep under the full representation invariant Heap::wf, which marking preserves only if no FREE cell gets marked, i.e. if no free cell is reachable (the mutator-side half of C03: a whole-history invariant that no contract here decides); and that the cells reachable from the roots are the ones the child relations ckid / vkid name (axiom_vkids)',
                'no Symbol cell is written except through put/maybe_put (get_at_index_mut is outside the contract)',
                'String keys obey vstd\'s hash-map key model (axiom_string_key); Rc::deref / as_ref / From<&String> specs assumed',
            ]},
    'C12': {'groups': ['heap', 'gcroots'], 'search': 'search_heap',
            'kani': [
                {'harness': 'gc_map_get', 'file': 'src/vm/gc.rs', 'kind': 'complete', 'what': 'Map::get returns the 2-bit field of the addressed cell for every byte content and index; None past capacity'},
                {'harness': 'gc_map_new_resize', 'file': 'src/vm/gc.rs', 'kind': 'bounded', 'bound': 'maps of at most 16 cells', 'what': 'Map::new / Map::resize: capacity follows the new size, new cells free, old cells kept (the sweep loop bound relies on it)'},
            ],
            'assumptions': [
                'only the second sentence is decided: immediately after sweep the allocated cells are exactly the cells marked before it (sweep contract), and marking marks nothing that is not reachable from a marked-from root is NOT proved (soundness of mark is the closure direction only)',
                'heap growth policy / "stops growing" (first sentence) is not decided: it depends on f64 thresholds and histories',
                'same trusted base as C03',
            ]},
    'C18': {'groups': ['heap'], 'search': 'search_heap',
            'assumptions': [
                'decided: the intern-table invariant of Heap (every table entry is a live cell holding that name; every live symbol cell is its name\'s entry) is preserved by alloc, put, maybe_put, free and sweep, and put/maybe_put answer an interned name with the table\'s cell; lemma_intern_unique derives "same name iff same cell"',
                'not decided: the symbol->string / string->symbol round trip (str code in builtin/symbol.rs and parse.rs); production routes other than Heap::put (reader, macro output) are assumed to go through put',
                'same trusted base as C03',
            ]},
    'C04': {'groups': ['compile', 'runone', 'cont', 'heap'], 'search': 'search_tail',
            'kani': [
                {'harness': 'vcell_accessors', 'file': 'src/vm/vcell.rs', 'kind': 'complete', 'timeout': 600, 'what': 'VCell::as_ptr/as_argc/as_car/as_cdr/as_bp/as_ep/as_ip/is_pair answer Ok(payload) exactly on the matching variant (a second, independent check: Verus verifies the same contracts in unit vcell since pre-rewrite str_consts; only is_nil is still assumed on the Verus side)'},
            ],
            'assumptions': [
                'scope: the compile-time half of C04 only -- which call instruction the compiler emits.  Decided: an application compiled with flag `tail` ends in TCALL iff the flag is set (compile_runtime_procedure_application); both branches of `if` inherit the flag of the whole form (compile_if); the dispatchers compile_expression / compile_procedure_application hand the flag through to `if` forms and applications; compile() hands it to the macro-expanded expression',
                'compile_lambda: the last body expression of a procedure gets the flag set -- if it is an application, the code object stored in the heap behind the pointer left in the enclosing bytecode ends in TCALL; Ret (loop invariant over the remaining body; Heap::put assumed to box the code object: heap_deref / lambda_cell).  Its two `.iter().inspect(trace).map(|sym| self.heap.put_cell(sym)).collect::<Vec<VCell>>()` chains are closures capturing &mut self, which Verus rejects: they are rewritten mechanically into the equivalent push loop (rewrite map_collect).  compile_set (format! of a &&Cell) and compile_quasiquote (nesting-depth counters) carry an assumed frame contract only; compile_define / compile_symbol_expression / compile_define_syntax / compile_quote are verified for the frame (and panic-freedom, given that Heap::put_cell answers a pointer); compile_runnable (top level) is not under contract',
                'eval (builtin/procedure.rs): the thunk built for the datum is compiled with the flag set -- if the macro-expanded datum is an application, the code object eval returns (to be entered by the re-dispatched call) ends in TCALL; Ret; pop_argc / Vm::pop / Heap::get_as_cell / Stack::push carry assumed contracts over an opaque stack (popped_value / stack_popped: what Vm::pop answers and what is left, as uninterpreted functions of heap and stack); every compile function is also proved to leave the machine registers alone (eval moves ip back afterwards)',
                'run-time half, group runone: the TCALL arm of the real run_one is proved to rebuild the frame in place (frame_replaced): after a tail call to a closure or lambda the stack pointer is (first argument slot of the old frame) + argc + 2 -- independent of the previous stack depth --, the saved %ep / %ip / %bp of the caller are the ones of the replaced frame, the new arguments sit in order above the frame base, nothing below the frame changes, the heap is untouched; both the equal-argc in-place copy and the different-argc rebuild satisfy the same postcondition',
                'the run_one contract is scoped by precondition to states whose next opcode is CALL, TCALL, ENTER, RET or VARARG (every other arm is then unreachable) and whose frame layout satisfies tcall_frame (bp + 5 + argc <= sp, frame_argc <= bp, stack shorter than 2^61 slots): run_count, the caller, is verified in group run against an assumed run_one and does not establish this precondition -- it is an assumption about the states compiled code reaches; read_opcode (moves %ip.1 only; verified in this group since the last day: next_op is now DEFINED as the opcode cell of the current code object at %ip.1, over the assumed one-line reads Lambda::get / VCell::as_opcode), Heap::get (assumed here as heap_deref; unit heap verifies its real body over the concrete view), VCell::as_bp (Kani-checked) carry contracts; Stack::get / get_mut / get_offset / get_offset_mut / get_sp / get_sp_mut / push are verified (unit stack); usize is 64 bits (global size_of usize == 8)',
                'the same run_one contract covers CALL (pushes exactly %ep and the return address), ENTER (pushes %bp, new %bp addresses the last argument), RET (drops the whole frame, restores %ep/%ip/%bp from it, writes nothing) and VARARG (optional arguments replaced by one slot: req + 1 arguments whatever was passed; needs `a variadic code object has at least one formal`); VCell::as_argc / as_bp / as_ep / as_ip: verified by Verus in unit vcell (their `&str` const mentions routed through external_body functions returning those consts: pre-rewrite str_consts) and checked a second time on the untouched text by the complete Kani harness vcell_accessors; Vm::lambda is verified to answer the Lambda cell %ip.0 designates, under the precondition code_ready (that cell is a code object: it panics otherwise, which compiled code never causes -- part of the scoping precondition call_ready of run_one); Vm::pop is verified in this group (the popped cell read through the heap, one slot popped, nothing else touched) against Heap::get_at_index, which like Heap::get is assumed to answer what the pointer designates and assumed total (a dangling pointer makes it panic)', 'apply (builtin/procedure.rs, group cont): hands control back to the dispatching CALL / TCALL (%ip.1 - 1) with the procedure as its result and exactly the spread arguments on the stack -- the k leading arguments moved down over the procedure slot, then pointers to the cars of the m list cells (walked through the heap), then ArgumentCount(k + m); nothing below is touched, no slot is left behind; requires the argument count on the stack to be smaller than the stack pointer (true after CALL / TCALL); Vm::pop assumed', 'call/cc handing control back is decided under C05 (same group)', 'the stack never has more than isize::MAX / 2 slots (axiom_stack_len: Vec allocation limit, VCell larger than one byte) -- used for i64 index arithmetic and for `can always double`', 'NOT decided at run time: the heap objects VARARG / ENTER build; the cond / case / and / or / when / unless / let-family forms are prelude.scm macros over `if` and `lambda`, their expansion is not under contract',
                'the contract speaks about branches that are themselves procedure calls (rt_app) or `if` forms; deeper nesting follows by the same contracts applied to the inner form, but the induction over the datum is not stated as a lemma',
                'Cell accessor contracts (car, cdr, is_pair, is_nil, is_list, collect_vec, clone) assumed from their one-line bodies in cell.rs; Lambda::emit and Lambda::argc are verified (unit lambda; a Vec holds at most isize::MAX elements: axiom_vec_len); Lambda::binding_location assumed to answer an argument index below the argument count; core identity From<T> for T assumed (axiom_into_self); str extensionality (axiom_str_ext); a datum has fewer than 2^64 pairs (axiom_spine_fits, used for the argument counter)',
                'executable rewrite inside compile_if: the slice-pattern match is desugared to length tests and indexing (Verus has no slice patterns)',
            ]},
    'C05': {'groups': ['cont', 'runone', 'heap'], 'search': 'search_cont',
            'assumptions': [
                'scope: the capture / restore laws of Stack and Vm (to_continuation, restore_continuation, push, pop, grow, clear) and the call/cc procedure (capture after popping argument count and receiver, before the instruction pointer is moved back; receiver returned; continuation object and argc 1 pushed); the invocation arm of run_one (CALL / TCALL with a continuation in %acc) is verified in group runone: for an invocation with one argument (the domain of the property): pop the argument count and the value cell, restore the captured control state, deliver that very cell in %acc; nothing is demanded of (k) or (k v w ..); run_one there is scoped by precondition to call instructions (see C04) and requires the capture to be well-formed and no longer than the running stack', 'Vm::pop (the dereferencing pop, not used by the invocation arm) carries an assumed contract so that a change to it stays decidable',
                'struct Continuation derives Clone / Eq over a tuple field, which Verus cannot ingest: it is wrapped with #[verifier::external_derive] (the derived impls stay external), its private fields are read through closed spec functions, and its four getters and the struct literal in Vm::to_continuation are verified (they were assumed until the last day)',
                'restore_continuation requires the saved stack to be no longer than the running one; this holds because stacks never shrink (every Stack operation under contract keeps or doubles the length) but is a whole-history fact, assumed at the call site',
                '<[T]>::to_vec / clone_from_slice specs assumed',
            ]},
    'C14': {'groups': ['builtins', 'heap', 'vector'], 'search': 'search_list',
            'kani': [
                {'harness': 'vcell_accessors', 'file': 'src/vm/vcell.rs', 'kind': 'complete', 'timeout': 600, 'what': 'VCell::as_ptr/as_argc/as_car/as_cdr/as_bp/as_ep/as_ip/is_pair answer Ok(payload) exactly on the matching variant (a second, independent check: Verus verifies the same contracts in unit vcell since pre-rewrite str_consts; only is_nil is still assumed on the Verus side)'},
            ],
            'assumptions': [
                'scope: the vector procedures vector, make-vector, vector-length, vector-ref, vector-set!, vector-fill!, vector->list, list->vector, vector-copy (start index), vector-copy! and the pair/list procedures cons, car, cdr, set-car!, set-cdr!, list-ref, list-tail, reverse and the list-copying helper clone_list that append uses (a fresh chain of allocated pairs with the very car fields of the argument, ending in a fresh () cell; nothing allocated before changes); append itself is under contract too (its `for _ in 0..(argc - 1)` loop with a `continue` is pre-rewritten into the equivalent while loop, which Verus accepts): no allocated cell changes, (append x) is x itself, (append () y) is y itself, and for any number of arguments that are () or proper lists the result is a path of allocated pairs with the car fields of the arguments in call order that ends in the last argument itself (shared, not copied); it requires what collector soundness gives for reachable data (arguments designate allocated cells, list spines point at allocated cells); equal? and the library procedures written in Scheme (length, map, memq, assq, ...) are NOT under contract', 'vector->list / reverse build fresh lists: list_of / plist say every pair of the result is an allocated cell, the cars designate the very elements (a pointer is kept, another value sits in an allocated cell holding it), the order is right, the list ends in (), and heap_ext says no cell that was allocated before is changed; reverse requires that the cdr fields along its argument designate allocated cells (a reachable list never points into free cells: collector soundness, C03) and, like list->vector, does not terminate on a circular list',
                'in group builtins the heap is opaque: Heap::get / put / get_at_index_mut carry assumed contracts over the views heap_deref / heap_live (what a pointer designates, which cells are allocated).  The put and get_at_index_mut models are ONE text (specs/builtin.py: PUT_MODEL_TEMPLATE, GIM_MODEL_TEMPLATE) instantiated twice: over uninterpreted views where they are assumed, and over the concrete views (cells / state map) in unit heap, where Heap::put and Heap::get_at_index_mut are VERIFIED to satisfy them (group heap runs under this property for that).  Writing the proof down showed that the first assumed model was wrong for a symbol whose name is already interned (it claimed a fresh cell); the model was corrected.  Heap::get (Cow argument) is assumed in the opaque-heap groups as r == heap_deref(h, cow_cell(v)); unit heap verifies the real body: r == m_deref(h, cow_val(into_spec(v))) whenever the argument conversion obeys its specification and a pointer argument is in range (cow_cell is axiomatised for &VCell and VCell arguments: Borrowed resp. Owned)',
                'stores into the interior-mutable Vector are tracked as events: vector_written(v, i, x) can only be established by Vector::put(i, x); "no other slot is written" (frame) is not expressible and not decided.  Vector::get is modelled against the contents at entry (vector_view is a function of the handle): exact for distinct allocations; when vector-copy! is given one vector as source and destination (Rc::ptr_eq, assumed to decide identity of the allocation: rc_same) each copy loop carries the obligation that the slot it reads is not among the slots it has already written, which is what makes the entry contents the right model (R7RS: as if the source were copied to a temporary first)',
                'Vector::put carries the precondition index < length, so its silently-ignore branch is proved dead at every call site',
                'the typed poppers pop_argc / pop_number / pop_index / pop_vector are verified (not assumed) against Heap::get (assumed: heap_deref), Number::to_usize (assumed) and the Display specs of Cell / Number used in their error text',
                'Vector::len / get / new / clone_vector: the specs the builtins assume over the uninterpreted payload view vector_view are one text (specs/vector.py) that unit vector, which runs under this property, PROVES on the real bodies over the RefCell contents (assumed there: RefCell::new / borrow and Ref::deref hand out the current contents, Vec::from(&[T]) copies the slice; clone_vector gets the precondition start <= end + 1 under which its slice expression cannot panic, proved at its call site in vector-copy); Vector::put / push (RefCell::borrow_mut) and VCell::vector stay assumed',
                'executable rewrite inside verified bodies: `.unwrap_or_else(|| v.len())` -> `.unwrap_or(v.len())` (closure results are opaque to Verus; the argument is a pure length read)',
            ]},
    'C07': {'groups': ['run', 'stack', 'compile', 'globenv'], 'search': 'search_fail',
            'assumptions': [
                'decided: an evaluation that does not fail leaves no stack trace on record (a stale trace of an earlier failure is cleared); the error arm of run_count leaves the machine in the idle top-level control state (sp = 0, every stack slot wiped, bp = 0, ep = none) with heap and globals exactly as the failing instruction left them; Stack::clear wipes every slot (proved in unit stack)',
                'a compile error leaves the control state untouched: every compile function, compile_runnable and prepare_eval are proved (group compile) to leave registers and stack as they were, prepare_eval moves %ip only on success; read errors happen before prepare_eval (by reading eval_text)', 'compilation binds nothing: every compile function, compile_runnable and prepare_eval are proved to keep the value of every global slot and to leave the slots they create undefined (genv_kept), so a definition the failed form never executed is not performed at compile time; the models of GlobalEnvironment::get_binding / put_slot / get_slot assumed there are one text (specs/environment.py) that unit globenv proves on the real bodies; assumed: the type invariant GlobalEnvironment::wf (every deep binding designates an existing slot; fields are private and new / get_binding / put_slot are proved to establish / preserve it), GlobalEnvironment::get only reads, compile_set / compile_quasiquote / compile_formal_arguments / transform keep the globals (bodies not ingestible)', 'not decided: that later evaluations then behave as in a VM that only performed the completed effects (needs the semantics of compile + run_one)',
                'run_one / StackTrace::new: assumed contracts; the contracts group run assumes for Stack::clear / get_sp / get_sp_mut (Stack is opaque there) are one text (specs/stack.py: CLEAR_MODEL, GET_SP_MODEL, GET_SP_MUT_MODEL) that unit stack, which runs under this property, proves on the real functions over the concrete views',
            ]},
    'C20': {'level': 'other', 'groups': [],
            'explanation': 'BOUNDED (never counted as proved): Kani/CBMC harnesses inside syntax.rs check find_matching_bracket and find_token_at_cursor against an executable nesting oracle written from the property text, for every token stream of 1..5 tokens (6 in the thorough tier) over the types ( ) #( symbol string with symbolic spans and every cursor / token index. highlight() and highlight_check() themselves run lex::scan and str slicing, which neither verifier ingests: escape insertion by byte span is not decided.',
            'kani': [
                {'harness': 'syntax_partner_n1', 'file': 'src/syntax.rs', 'kind': 'bounded', 'bound': 'token streams of exactly 1 tokens (types ( ) #( symbol string, widths 1-2, gaps 0-1), every token index and cursor', 'tier': 'quick', 'timeout': 900, 'what': 'find_matching_bracket == nesting oracle; find_token_at_cursor == covering token else the one before'},
                {'harness': 'syntax_partner_n2', 'file': 'src/syntax.rs', 'kind': 'bounded', 'bound': 'token streams of exactly 2 tokens (types ( ) #( symbol string, widths 1-2, gaps 0-1), every token index and cursor', 'tier': 'quick', 'timeout': 900, 'what': 'find_matching_bracket == nesting oracle; find_token_at_cursor == covering token else the one before'},
                {'harness': 'syntax_partner_n3', 'file': 'src/syntax.rs', 'kind': 'bounded', 'bound': 'token streams of exactly 3 tokens (types ( ) #( symbol string, widths 1-2, gaps 0-1), every token index and cursor', 'tier': 'quick', 'timeout': 900, 'what': 'find_matching_bracket == nesting oracle; find_token_at_cursor == covering token else the one before'},
                {'harness': 'syntax_partner_n4', 'file': 'src/syntax.rs', 'kind': 'bounded', 'bound': 'token streams of exactly 4 tokens (types ( ) #( symbol string, widths 1-2, gaps 0-1), every token index and cursor', 'tier': 'quick', 'timeout': 900, 'what': 'find_matching_bracket == nesting oracle; find_token_at_cursor == covering token else the one before'},
                {'harness': 'syntax_partner_n5', 'file': 'src/syntax.rs', 'kind': 'bounded', 'bound': 'token streams of exactly 5 tokens (types ( ) #( symbol string, widths 1-2, gaps 0-1), every token index and cursor', 'tier': 'quick', 'timeout': 900, 'what': 'find_matching_bracket == nesting oracle; find_token_at_cursor == covering token else the one before'},
                {'harness': 'syntax_partner_n6', 'file': 'src/syntax.rs', 'kind': 'bounded', 'bound': 'token streams of exactly 6 tokens (types ( ) #( symbol string, widths 1-2, gaps 0-1), every token index and cursor', 'tier': 'thorough', 'timeout': 900, 'what': 'find_matching_bracket == nesting oracle; find_token_at_cursor == covering token else the one before'}
            ],
            'assumptions': ['bounded: at most 6 tokens; the scanner (lex::scan), the text slicing in highlight() and highlight_check() are not covered']},
    'C13': {'groups': ['run'], 'search': 'search_run',
            'assumptions': [
                'run_one is a deterministic function of the observable machine state (heap, globals, stack, acc, ep, ip, bp): step_obs/step_kind/step_err are uninterpreted and run_one is assumed to implement them (its body is not verified here)',
                'run_gc leaves the observable state unchanged (this is property C03, assumed for C13)',
                'output and global effects happen inside run_one, i.e. are part of the step function; equal step sequences give equal effects',
                'Vm::run() = run_count(usize::MAX).map(unwrap): the closure is opaque to Verus, the equality run == one slice of budget usize::MAX is by reading',
                'prepare_eval is not under contract (compiler); rand/time builtins excluded by the property',
            ]},
    'C09': {'groups': ['num'], 'search': 'search_num',
            'kani': [
                {'harness': 'num_is_zero_fixnum', 'file': 'src/number.rs', 'kind': 'complete', 'what': 'Number::is_zero() == (value == 0) for every fixnum'},
                {'harness': 'num_is_zero_rational', 'file': 'src/number.rs', 'kind': 'complete', 'what': 'Number::is_zero() == (numerator == 0) for every Rational32 with positive denominator'},
                {'harness': 'num_cmp_fixnum_float_consistent', 'file': 'src/number.rs', 'kind': 'complete', 'timeout': 900, 'what': 'fixnum vs float, every i64 and every non-NaN f64: partial_cmp answers Some, the two argument orders are mirror images, = is symmetric and agrees with the order (consistency only: the mathematical order of large fixnums against floats is not decided)'},
                {'harness': 'num_is_zero_bigint_i64', 'file': 'src/number.rs', 'kind': 'bounded', 'bound': 'bignums whose value fits i64 (unwind 4, unwinding assertions on)', 'what': 'Number::is_zero() on a bignum == (value == 0)'},
            ],
            'assumptions': [
                'assumed specifications of BigInt / Ratio comparison (axiom_big_eq, axiom_big_cmp, axiom_r32_eq, axiom_r32_cmp) as the mathematical order of their values',
                'comparisons in which one operand is a Float are not decided by Verus (exec `as f64` casts are havoc): only panic-freedom of those arms is proved; for fixnum against float the complete Kani harness num_cmp_fixnum_float_consistent decides consistency (mirror-image answers for the two argument orders, = symmetric and in agreement with the order), not the mathematical order; float against bignum / rational: not decided',
            ]},
}
