"""Registry: external type declarations, unit groups, property -> groups."""

# emitted (in lib.rs) for every type a unit uses that no active unit wraps
TYPE_EXT = {
}

# verus groups: one Verus run each
GROUPS = {
    'num': ['number'],
}

PROPS = {
    'C08': {'groups': ['num'], 'search': 'search_num',
            'assumptions': [
                'assumed specifications of num-bigint 0.4.4 / num-rational 0.4.1 / num-traits / core functions listed in trusted_base (written from their sources)',
                'Ratio<i32> values are in lowest terms with a positive denominator (invariant of every constructor marwood calls)',
                'f64 arithmetic is uninterpreted: the 2^-50 relative error bound of inexact fallbacks is not decided',
                'machine integers are NOT treated as mathematical: Verus checks i64/i32/u32 overflow bit-exactly',
                'results built inside closures passed to Option::map (float arms of quotient / %) are opaque to Verus',
            ]},
    'C09': {'groups': ['num'], 'search': 'search_num',
            'assumptions': [
                'assumed specifications of BigInt / Ratio comparison (axiom_big_eq, axiom_big_cmp, axiom_r32_eq, axiom_r32_cmp) as the mathematical order of their values',
                'comparisons in which one operand is a Float are not decided (exec `as f64` casts are havoc to Verus): only panic-freedom of those arms is proved',
            ]},
}
