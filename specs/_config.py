"""Registry: external type declarations, unit groups, property -> groups."""

# emitted (in lib.rs) for every type a unit uses that no active unit wraps
TYPE_EXT = {
}

# verus groups: one Verus run each
GROUPS = {
    'num': ['number'],
}

PROPS = {
    'C08': {'groups': ['num']},
    'C09': {'groups': ['num']},
}
