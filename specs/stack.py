"""Unit `stack`: marwood/src/vm/stack.rs — the VM stack and continuation capture / restore (C05, C07, C12)."""

# Models of the stack operations that group `run` (Stack opaque there) ASSUMES, as one text: instantiated over uninterpreted views
# (SP / WIPED) in specs/vm.py and over the concrete ones here, where the real functions are verified to satisfy them.
CLEAR_MODEL = 'WIPED(s1) && SP(s1) == SP(s0)'
GET_SP_MODEL = 'r0 == SP(s0)'
GET_SP_MUT_MODEL = 'r0 == SP(s0) && SP(s1) == r1 && WIPED(s1) == WIPED(s0)'

PRELUDE = r'''
use vstd::std_specs::iter::IteratorSpec;
/// the target is 64-bit (x86_64): needed for the i64 <-> usize casts of Stack::get_offset
global size_of usize == 8;
pub assume_specification<T: Clone + core::marker::Destruct> [<[T]>::clone_from_slice] (dst: &mut [T], src: &[T])
   requires old(dst)@.len() == src@.len() ensures final(dst)@ == src@;
pub assume_specification<T: Clone> [<[T]>::to_vec] (s: &[T]) -> (r: Vec<T>) ensures r@ == s@;
/// std: a Vec's allocation is at most isize::MAX bytes and a VCell occupies more than one byte, so the stack never has more than
/// isize::MAX / 2 slots (it can always double once more, and slot indices fit an i64 with room for an offset)
#[verifier::external_body]
pub proof fn axiom_stack_len(s: Stack) ensures s.cells().len() * 2 <= isize::MAX {}
/// the views group `run` reasons with, on the real representation
pub open spec fn m_sp(s: Stack) -> usize { s.sp_spec() }
pub open spec fn m_wiped(s: Stack) -> bool { forall|i: int| 0 <= i < s.cells().len() ==> #[trigger] s.cells()[i] == VCell::Undefined }
impl Stack {
    /// the stack pointer addresses an existing slot
    pub open spec fn wf(&self) -> bool { self.sp_spec() < self.cells().len() && self.cells().len() <= usize::MAX }
    pub open spec fn can_grow(&self) -> bool { self.cells().len() * 2 <= usize::MAX }
    pub closed spec fn sp_spec(&self) -> usize { self.sp }
    pub closed spec fn cells(&self) -> Seq<VCell> { self.stack@ }
    /// the live part: slots 0..=sp
    pub open spec fn live(&self) -> Seq<VCell> { self.cells().subrange(0, self.sp_spec() + 1) }
}
'''

S5 = ['C05']
UNITS = [{
    'name': 'stack',
    'file': 'src/vm/stack.rs',
    'wrap': ['struct Stack'],
    'wraps_types': ['Stack'],
    'uses_types': ['VCell', 'Error'],
    'prelude': PRELUDE,
    'fns': {
        'impl Stack::new': {'props': S5 + ['C06'], 'ensures': [(S5, 'r.wf() && r.sp_spec() == 0')]},  # the initial capacity (256 today) is incidental: no property depends on it
        'impl Stack::clear': {
            'props': ['C12', 'C07', 'C05', 'C06'],
            'ensures': [
                # every slot is wiped (dead frames are no longer roots), sp and the capacity stay: a stack never shrinks,
                # which is what lets a continuation saved earlier be restored later (C05)
                (['C12', 'C07', 'C05'], 'final(self).cells().len() == old(self).cells().len() && final(self).sp_spec() == old(self).sp_spec()'),
                (['C12', 'C07'], 'forall|i: int| 0 <= i < final(self).cells().len() ==> final(self).cells()[i] == VCell::Undefined'),
                # the model group `run` assumes for this function (same text, concrete views)
                (['C07'], CLEAR_MODEL.replace('WIPED', 'm_wiped').replace('SP', 'm_sp').replace('s1', '*final(self)').replace('s0', '*old(self)')),
            ],
        },
        'impl Stack::grow': {
            'props': S5 + ['C06'],
            'requires': ['old(self).wf()', 'old(self).can_grow()'],
            'ensures': [(S5, 'final(self).wf() && final(self).sp_spec() == old(self).sp_spec() && final(self).cells().len() > old(self).cells().len()'),  # it doubles today; no property depends on the factor
                        (S5, 'final(self).cells().subrange(0, old(self).cells().len() as int) == old(self).cells()')],
        },
        # accessors used by the instruction loop (run_one): exact results, `get_mut` changes exactly the addressed slot
        'impl Stack::get': {
            'props': ['C04', 'C06'],
            'ensures': [(['C04'], 'index < self.cells().len() ==> (r matches Ok(c) && *c == self.cells()[index as int])'),
                        (['C04'], 'index >= self.cells().len() ==> r is Err')],
        },
        # declared although the verified callers do not use it (a change that did would be decided, not refused)
        'impl Stack::len': {'props': ['C06'], 'ensures': [(['C06'], 'r == self.cells().len()')]},
        'impl Stack::get_sp': {'props': ['C04', 'C06'], 'ensures': [(['C04'], 'r == self.sp_spec()'),
            (['C07'], GET_SP_MODEL.replace('SP', 'm_sp').replace('s0', '*self').replace('r0', 'r'))]},
        'impl Stack::get_offset': {
            'props': ['C04', 'C06'],
            'requires': ['self.wf()', 'i64::MIN / 2 <= offset <= i64::MAX / 2'],
            'body_start': 'proof { axiom_stack_len(*self); }',
            'ensures': [(['C04'], '0 <= self.sp_spec() + offset < self.cells().len() ==> (r matches Ok(c) && *c == self.cells()[self.sp_spec() + offset])')],
        },
        'impl Stack::get_mut': {
            'props': ['C04', 'C06'],
            'ensures': [(['C04'], 'index >= old(self).cells().len() ==> r is Err && final(self).cells() == old(self).cells() && final(self).sp_spec() == old(self).sp_spec()'),
                        (['C04'], '''index < old(self).cells().len() ==> (r matches Ok(c) && *c == old(self).cells()[index as int]
                            && final(self).cells() == old(self).cells().update(index as int, *final(c)) && final(self).sp_spec() == old(self).sp_spec())''')],
        },
        'impl Stack::get_offset_mut': {
            'props': ['C04', 'C06'],
            'requires': ['old(self).wf()', 'i64::MIN / 2 <= offset <= i64::MAX / 2'],
            'body_start': 'proof { axiom_stack_len(*old(self)); }',
            'ensures': [(['C04'], '''0 <= old(self).sp_spec() + offset < old(self).cells().len() ==> (r matches Ok(c) && *c == old(self).cells()[old(self).sp_spec() + offset]
                            && final(self).cells() == old(self).cells().update(old(self).sp_spec() + offset, *final(c)) && final(self).sp_spec() == old(self).sp_spec())''')],
        },
        'impl Stack::get_sp_mut': {
            'props': ['C04', 'C06'],
            'ensures': [(['C04'], '*r == old(self).sp_spec() && final(self).sp_spec() == *final(r) && final(self).cells() == old(self).cells()'),
                        (['C07'], GET_SP_MUT_MODEL.replace('WIPED', 'm_wiped').replace('SP', 'm_sp').replace('s1', '*final(self)').replace('s0', '*old(self)').replace('r0', '*r').replace('r1', '*final(r)'))],
        },
        # the root enumeration of the collector walks this iterator: it must yield exactly the live slots 0..=sp (C03: the top slot too)
        'impl Stack::iter_to_sp': {
            'props': ['C03', 'C06'],
            'requires': ['self.wf()'],
            'ensures': [(['C03'], 'r.obeys_prophetic_iter_laws() && r.decrease() is Some'),
                        (['C03'], 'r.remaining().len() == self.sp_spec() + 1'),
                        (['C03'], 'forall|i: int| 0 <= i <= self.sp_spec() ==> *(#[trigger] r.remaining()[i]) == self.cells()[i]')],
        },
        # ... and mark_continuation walks every slot of a saved stack through this one
        'impl Stack::iter': {
            'props': ['C03', 'C05', 'C06'],
            'ensures': [(['C03'], 'r.obeys_prophetic_iter_laws() && r.decrease() is Some'),
                        (['C03', 'C05'], 'r.remaining().len() == self.cells().len()'),
                        (['C03', 'C05'], 'forall|i: int| 0 <= i < self.cells().len() ==> *(#[trigger] r.remaining()[i]) == self.cells()[i]')],
        },
        'impl Stack::pop': {
            'props': S5 + ['C06'],
            'requires': ['old(self).wf()'],
            'ensures': [
                (S5, 'final(self).cells() == old(self).cells() && final(self).wf()'),
                (S5, 'old(self).sp_spec() == 0 ==> r is Err && final(self).sp_spec() == 0'),
                (S5, 'old(self).sp_spec() > 0 ==> final(self).sp_spec() == old(self).sp_spec() - 1 && r is Ok && *r->Ok_0 == old(self).cells()[old(self).sp_spec() as int]'),
            ],
        },
        'impl Stack::push': {
            'props': S5 + ['C06'],
            'requires': ['old(self).wf()'],
            'body_start': 'proof { axiom_stack_len(*old(self)); }',
            'ensures': [
                (S5, 'final(self).wf() && final(self).sp_spec() == old(self).sp_spec() + 1 && final(self).cells().len() >= old(self).cells().len()'),
                (S5, 'final(self).cells().subrange(0, old(self).sp_spec() + 1) == old(self).live()'),
                (['C04'], 'old(self).sp_spec() + 1 < old(self).cells().len() ==> final(self).cells().len() == old(self).cells().len()'),
                # exactly one slot is written: every other existing slot, above the new top as well, keeps its content
                (['C04'], 'forall|j: int| 0 <= j < old(self).cells().len() && j != old(self).sp_spec() + 1 ==> final(self).cells()[j] == old(self).cells()[j]'),
                (S5, '<T as vstd::std_specs::convert::IntoSpec<VCell>>::obeys_into_spec() ==> final(self).cells()[final(self).sp_spec() as int] == <T as vstd::std_specs::convert::IntoSpec<VCell>>::into_spec(vcell)'),
            ],
            'decreases': '(if old(self).sp_spec() + 1 < old(self).cells().len() { 0int } else { 1int })',
        },
        'impl Stack::to_continuation': {
            'props': S5 + ['C06'],
            'requires': ['self.wf()'],
            'ensures': [(S5, 'r.wf() && r.sp_spec() == self.sp_spec() && r.cells() == self.live()')],
        },
        'impl Stack::restore_continuation': {
            'props': S5 + ['C06'],
            # a saved stack is never longer than the running one: stacks only grow (every operation above keeps or doubles the length)
            'requires': ['old(self).wf()', 'cont.wf()', 'cont.cells().len() == cont.sp_spec() + 1', 'cont.cells().len() <= old(self).cells().len()'],
            'ensures': [
                # exactly the captured live part is back, sp included; slots above it are untouched
                (S5, 'final(self).wf() && final(self).sp_spec() == cont.sp_spec() && final(self).cells().len() == old(self).cells().len()'),
                (S5, 'final(self).live() == cont.cells()'),
                (S5, 'final(self).cells().subrange(cont.cells().len() as int, old(self).cells().len() as int) == old(self).cells().subrange(cont.cells().len() as int, old(self).cells().len() as int)'),
            ],
        },
    },
}]
