"""Unit `builtin_procedure`: marwood/src/vm/builtin/procedure.rs — call/cc (C05)."""

PRELUDE = r'''
use crate::vm::builtin::*;
use crate::vm::continuation::{cont_stack, cont_regs, cont_wf};
use crate::vm::continuation::Continuation;
/// std: `impl<T> From<T> for T` is the identity, hence so is `Into<VCell> for VCell`
#[verifier::external_body]
pub proof fn axiom_vcell_into_self()
    ensures <VCell as vstd::std_specs::convert::IntoSpec<VCell>>::obeys_into_spec(),
            forall|c: VCell| #[trigger] <VCell as vstd::std_specs::convert::IntoSpec<VCell>>::into_spec(c) == c {}
'''

C5 = ['C05']
UNITS = [{
    'name': 'builtin_procedure',
    'file': 'src/vm/builtin/procedure.rs',
    'uses_types': ['VCell', 'Error', 'Heap', 'Continuation', 'Cell'],
    'prelude': PRELUDE,
    'fns': {
        '::call_cc': {
            'props': C5 + ['C06'],
            # the instruction pointer has already moved past the CALL that dispatched this builtin
            'requires': ['old(vm).stack_spec().wf()', 'old(vm).regs().1.1 >= 1',
                         'old(vm).stack_spec().sp_spec() + 2 >= old(vm).stack_spec().cells().len() ==> old(vm).stack_spec().can_grow()'],
            'body_start': 'proof { axiom_vcell_into_self(); if old(vm).stack_spec().sp_spec() > 1 { axiom_cow_cell_ref(&arg(*old(vm), 1)); } }',
            'inserts': [
                {'anchor': 'vm.stack.push(ArgumentCount(1));', 'where': 'before', 'text': 'let ghost s1 = vm.stack_spec();'},
                {'anchor': 'vm.stack.push(ArgumentCount(1));', 'where': 'after', 'text': 'proof { assert(vm.stack_spec().cells().subrange(0, s1.sp_spec() + 1)[s1.sp_spec() as int] == s1.live()[s1.sp_spec() as int]); }'},
            ],
            'ensures': [
                # On success the receiver is returned (to be applied by the re-dispatched CALL, hence ip - 1), and the two new top
                # cells are the continuation object and an argument count of 1.  The continuation was captured *after* popping the
                # argument count and the receiver -- its stack is the live stack below them -- and *before* the instruction pointer
                # was moved back, so it resumes at the instruction after the call, with ep / bp of the caller.
                (C5, '''r matches Ok(proc) ==> (old(vm).stack_spec().sp_spec() >= 2
                    && proc == arg(*old(vm), 1)
                    && final(vm).stack_spec().sp_spec() == old(vm).stack_spec().sp_spec()
                    && final(vm).regs() == (old(vm).regs().0, (old(vm).regs().1.0, (old(vm).regs().1.1 - 1) as usize), old(vm).regs().2)
                    && arg(*final(vm), 0) == VCell::ArgumentCount(1)
                    && (heap_deref(final(vm).heap_spec(), arg(*final(vm), 1)) matches VCell::Continuation(c)
                        && cont_regs(*c) == old(vm).regs()
                        && cont_stack(*c).sp_spec() == old(vm).stack_spec().sp_spec() - 2
                        && cont_stack(*c).cells() == old(vm).stack_spec().cells().subrange(0, old(vm).stack_spec().sp_spec() - 1)))'''),
            ],
        },
    },
}]
