"""Unit `builtin_procedure`: marwood/src/vm/builtin/procedure.rs — call/cc (C05)."""

PRELUDE = r'''
use crate::vm::builtin::*;
use crate::vm::continuation::{cont_stack, cont_regs, cont_wf};
use crate::vm::continuation::Continuation;
/// std: `impl<T> From<T> for T` is the identity, hence so is `Into<VCell> for VCell`
#[verifier::external_body]
pub proof fn axiom_vcell_into_self()
    ensures <VCell as vstd::std_specs::convert::IntoSpec<VCell>>::obeys_into_spec(),
            forall|c: VCell| #[trigger] <VCell as vstd::std_specs::convert::IntoSpec<VCell>>::into_spec(c) == c {}
'''

APPLY_PRELUDE = r'''
/// (the same axiom as axiom_cow_cell_ref, for every reference at once: `Cow::from(&cell)` borrows that cell)
#[verifier::external_body]
pub proof fn axiom_cow_cell_ref_all() ensures forall|c: &VCell| #[trigger] cow_cell::<&VCell>(c) == *c {}
/// j-th cell of the list that starts at (dereferenced) cell `start`, following cdr pointers through heap h
pub open spec fn spine_cell(h: crate::vm::heap::Heap, start: VCell, j: nat) -> VCell decreases j {
    if j == 0 { start } else { match spine_cell(h, start, (j - 1) as nat) { VCell::Pair(a, d) => heap_deref(h, VCell::Ptr(d)), _ => VCell::Undefined } }
}
/// state of the spreading loop after j list elements: k shifted arguments, then j car pointers, `rest` is the j-th list cell
pub open spec fn apply_progress(old: Vm, cur: Vm, k: int, j: nat, rest: VCell) -> bool {
    let s0 = old.stack_spec(); let s1 = cur.stack_spec(); let sp = s0.sp_spec() as int; let base = sp - 2 - k;
    let lst = heap_deref(old.heap_spec(), s0.cells()[sp - 1]);
    &&& s1.sp_spec() == base + k - 1 + j && s1.cells().len() >= s0.cells().len()
    &&& rest == spine_cell(old.heap_spec(), lst, j)
    &&& forall|i: int| base <= i < base + k ==> #[trigger] s1.cells()[i] == s0.cells()[i + 1]
    &&& forall|t: nat| t < j ==> (spine_cell(old.heap_spec(), lst, t) matches VCell::Pair(a, d) && #[trigger] s1.cells()[base + k + t] == VCell::Ptr(a))
    &&& forall|i: int| 0 <= i < base ==> #[trigger] s1.cells()[i] == s0.cells()[i]
}
/// what (apply proc a1 .. ak list) leaves for the re-dispatched call: proc's slot and the k + 2 argument slots are replaced by
/// a1 .. ak followed by the m elements of the list (pointers to the cars themselves) and the new argument count k + m;
/// nothing below proc's slot is touched
pub open spec fn applied(old: Vm, new: Vm, k: int, m: nat) -> bool {
    let s0 = old.stack_spec(); let s1 = new.stack_spec(); let sp = s0.sp_spec() as int; let base = sp - 2 - k;
    let lst = heap_deref(old.heap_spec(), s0.cells()[sp - 1]);
    &&& s1.wf() && s1.sp_spec() == base + k + m
    &&& s1.cells()[base + k + m] == VCell::ArgumentCount((k + m) as usize)
    &&& forall|i: int| base <= i < base + k ==> #[trigger] s1.cells()[i] == s0.cells()[i + 1]
    &&& forall|j: nat| j < m ==> (spine_cell(old.heap_spec(), lst, j) matches VCell::Pair(a, d) && #[trigger] s1.cells()[base + k + j] == VCell::Ptr(a))
    &&& spine_cell(old.heap_spec(), lst, m) is Nil
    &&& forall|i: int| 0 <= i < base ==> #[trigger] s1.cells()[i] == s0.cells()[i]
    &&& new.heap_spec() == old.heap_spec()
    &&& new.regs() == (old.regs().0, (old.regs().1.0, (old.regs().1.1 - 1) as usize), old.regs().2)
}
'''

C5 = ['C05']
C4 = ['C04']
UNITS = [{
    'name': 'builtin_procedure',
    'file': 'src/vm/builtin/procedure.rs',
    'uses_types': ['VCell', 'Error', 'Heap', 'Continuation', 'Cell'],
    'prelude': PRELUDE + APPLY_PRELUDE,
    'fns': {
        # apply hands control back to the CALL / TCALL that dispatched it (ip - 1) with the procedure in its result and exactly the
        # spread arguments on the stack: no slot is left behind, so a tail call made through apply stays a tail call
        '::apply': {
            'props': C4 + ['C14', 'C06'],
            # the argument count on top of the stack counts argument slots that are really there (CALL / TCALL push them first)
            'requires': ['old(vm).stack_spec().wf()', 'old(vm).regs().1.1 >= 1',
                         'arg(*old(vm), 0) matches VCell::ArgumentCount(n) ==> n < old(vm).stack_spec().sp_spec()'],
            'attrs': '#[verifier::exec_allows_no_decreases_clause]',
            'body_start': 'proof { axiom_vcell_into_self(); axiom_cow_cell_ref_all(); crate::vm::stack::axiom_stack_len(old(vm).stack_spec()); if old(vm).stack_spec().sp_spec() > 0 { axiom_cow_cell_ref(&arg(*old(vm), 0)); } }',
            'ensures': [
                (C4, '''r matches Ok(p) ==> (old(vm).stack_spec().sp_spec() >= 2 && (arg(*old(vm), 0) matches VCell::ArgumentCount(n) && n >= 2
                    && old(vm).stack_spec().sp_spec() >= n && p == arg(*old(vm), n as int)
                    && exists|m: nat| #[trigger] applied(*old(vm), *final(vm), n - 2, m)))'''),
            ],
            'inserts': [
                {'anchor': 'Ok(proc)', 'where': 'before', 'text': '''proof {
                    match arg(*old(vm), 0) {
                        VCell::ArgumentCount(n) => { assert(applied(*old(vm), *vm, n as int - 2, (argc - (n - 2)) as nat)); }
                        _ => {}
                    }
                }'''},
            ],
            'loop_iter': {0: 'it0'},
            'loops': {
                0: '''invariant
                    vm.stack_spec().wf(), vm.stack_spec().sp_spec() == old(vm).stack_spec().sp_spec() - 2, vm.stack_spec().cells().len() == old(vm).stack_spec().cells().len(),
                    vm.heap_spec() == old(vm).heap_spec(), vm.regs() == old(vm).regs(), argc >= 2, old(vm).stack_spec().sp_spec() >= argc,
                    arg(*old(vm), 0) == VCell::ArgumentCount(argc),
                    // the first it0.index@ arguments (from the bottom) have moved down by one slot
                    forall|i: int| old(vm).stack_spec().sp_spec() - argc <= i < old(vm).stack_spec().sp_spec() - argc + it0.index@ ==> #[trigger] vm.stack_spec().cells()[i] == old(vm).stack_spec().cells()[i + 1],
                    forall|i: int| 0 <= i < old(vm).stack_spec().cells().len() && !(old(vm).stack_spec().sp_spec() - argc <= i < old(vm).stack_spec().sp_spec() - argc + it0.index@) ==> #[trigger] vm.stack_spec().cells()[i] == old(vm).stack_spec().cells()[i],''',
                1: '''invariant
                    vm.stack_spec().wf(), vm.heap_spec() == old(vm).heap_spec(), vm.regs() == old(vm).regs(),
                    arg(*old(vm), 0) matches VCell::ArgumentCount(n) && n >= 2 && old(vm).stack_spec().sp_spec() >= n && argc >= n - 2
                        && apply_progress(*old(vm), *vm, n - 2, (argc - (n - 2)) as nat, rest),''',
            },
            'loop_count': 2,
        },
        '::call_cc': {
            'props': C5 + ['C06'],
            # the instruction pointer has already moved past the CALL that dispatched this builtin
            'requires': ['old(vm).stack_spec().wf()', 'old(vm).regs().1.1 >= 1'],
            'body_start': 'proof { axiom_vcell_into_self(); if old(vm).stack_spec().sp_spec() > 1 { axiom_cow_cell_ref(&arg(*old(vm), 1)); } }',
            'inserts': [
                {'anchor': 'vm.stack.push(ArgumentCount(1));', 'where': 'before', 'text': 'let ghost s1 = vm.stack_spec();'},
                {'anchor': 'vm.stack.push(ArgumentCount(1));', 'where': 'after', 'text': 'proof { assert(vm.stack_spec().cells().subrange(0, s1.sp_spec() + 1)[s1.sp_spec() as int] == s1.live()[s1.sp_spec() as int]); }'},
            ],
            'ensures': [
                # On success the receiver is returned (to be applied by the re-dispatched CALL, hence ip - 1), and the two new top
                # cells are the continuation object and an argument count of 1.  The continuation was captured *after* popping the
                # argument count and the receiver -- its stack is the live stack below them -- and *before* the instruction pointer
                # was moved back, so it resumes at the instruction after the call, with ep / bp of the caller.
                (C5, '''r matches Ok(proc) ==> (old(vm).stack_spec().sp_spec() >= 2
                    && proc == arg(*old(vm), 1)
                    && final(vm).stack_spec().sp_spec() == old(vm).stack_spec().sp_spec()
                    && final(vm).regs() == (old(vm).regs().0, (old(vm).regs().1.0, (old(vm).regs().1.1 - 1) as usize), old(vm).regs().2)
                    && arg(*final(vm), 0) == VCell::ArgumentCount(1)
                    && (heap_deref(final(vm).heap_spec(), arg(*final(vm), 1)) matches VCell::Continuation(c)
                        && cont_regs(*c) == old(vm).regs()
                        && cont_stack(*c).sp_spec() == old(vm).stack_spec().sp_spec() - 2
                        && cont_stack(*c).cells() == old(vm).stack_spec().cells().subrange(0, old(vm).stack_spec().sp_spec() - 1)))'''),
            ],
        },
    },
}]
