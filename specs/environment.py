"""Unit `globenv`: marwood/src/vm/environment.rs, the global environment (C07: compilation binds nothing).

The compile functions (unit `compile`, GlobalEnvironment opaque there) ASSUME the models below over an uninterpreted view
SLOTS; here the same texts are instantiated over the real `slots` vector and PROVED on the real bodies of get_binding / put_slot
/ get_slot ("one text, two instantiations", as for Heap::put and Stack::clear).
"""

# g0 -> g1 keeps every existing slot value; slots that appear are undefined (a name that is merely *mentioned* gets a slot, no value)
KEPT_MODEL = '''SLOTS(g0).len() <= SLOTS(g1).len()
    && (forall|i: int| 0 <= i < SLOTS(g0).len() ==> #[trigger] SLOTS(g1)[i] == SLOTS(g0)[i])
    && (forall|i: int| SLOTS(g0).len() <= i < SLOTS(g1).len() ==> #[trigger] SLOTS(g1)[i] == VCell::Undefined)'''
GET_BINDING_MODEL = 'KEPT(g0, g1) && r0 < SLOTS(g1).len()'
PUT_SLOT_MODEL = 'SLOTS(g1) == SLOTS(g0).update(slot as int, v)'
GET_SLOT_MODEL = 'r0 == SLOTS(g0)[slot as int]'


def inst(text, slots, kept, **names):
    out = text.replace('KEPT', kept).replace('SLOTS', slots)
    for k, v in names.items():
        out = out.replace(k, v)
    return out


PRELUDE = r'''
use vstd::std_specs::hash::*;
use vstd::std_specs::iter::IteratorSpec;
/// the view group `compile` reasons with, on the real representation
pub open spec fn m_slots(g: GlobalEnvironment) -> Seq<VCell> { g.slots_spec() }
pub open spec fn m_kept(g0: GlobalEnvironment, g1: GlobalEnvironment) -> bool {
''' + KEPT_MODEL.replace('SLOTS', 'm_slots') + r'''
}
impl GlobalEnvironment {
    pub closed spec fn slots_spec(&self) -> Seq<VCell> { self.slots@ }
    pub closed spec fn bindings_spec(&self) -> Map<usize, usize> { self.bindings@ }
    /// every deep binding designates an existing slot
    pub open spec fn wf(&self) -> bool {
        forall|k: usize| #[trigger] self.bindings_spec().contains_key(k) ==> self.bindings_spec()[k] < self.slots_spec().len()
    }
}
/// std: a Vec's allocation is at most isize::MAX bytes and a VCell occupies more than one byte
#[verifier::external_body]
pub proof fn axiom_slots_len(g: GlobalEnvironment) ensures g.slots_spec().len() < usize::MAX {}
'''

G = ['C07']
UNITS = [{
    'name': 'globenv',
    'file': 'src/vm/environment.rs',
    'wrap': ['struct GlobalEnvironment'],
    'wraps_types': ['GlobalEnvironment'],
    'uses_types': ['VCell'],
    'prelude': PRELUDE,
    'fns': {
        'impl GlobalEnvironment::new': {'props': G + ['C06'], 'ensures': [(G, 'r.wf() && r.slots_spec().len() == 0')]},
        # a symbol that is merely looked up by the compiler gets a slot, never a value; existing values are untouched
        'impl GlobalEnvironment::get_binding': {
            'props': G + ['C06'],
            'requires': ['old(self).wf()'],
            'body_start': 'broadcast use vstd::std_specs::hash::group_hash_axioms; proof { axiom_slots_len(*old(self)); }',
            'inserts': [
                {'anchor': 'let sym: usize = sym.into();', 'where': 'after',
                 'text': 'proof { assert(self.bindings_spec().contains_key(sym) ==> self.bindings_spec()[sym] < self.slots_spec().len()); }'},
                {'anchor': 'self.bindings.insert(sym, slot);', 'where': 'after',
                 'text': 'proof { assert(self.slots_spec() == old(self).slots_spec().push(VCell::Undefined)); assert(self.bindings_spec() == old(self).bindings_spec().insert(sym, slot)); }'},
            ],
            'ensures': [(G, 'final(self).wf()'),
                        (G, inst(GET_BINDING_MODEL, 'm_slots', 'm_kept', g0='*old(self)', g1='*final(self)', r0='r'))],
        },
        # what the collector's root enumeration walks: every bound symbol, every slot
        'impl GlobalEnvironment::iter_bindings': {
            'props': ['C03', 'C06'],
            'body_start': 'broadcast use vstd::std_specs::hash::group_hash_axioms;',
            'ensures': [(['C03'], 'r.obeys_prophetic_iter_laws() && r.decrease() is Some'),
                        (['C03'], 'forall|s: usize| self.bindings_spec().contains_key(s) ==> exists|j: int| 0 <= j < r.remaining().len() && *(#[trigger] r.remaining()[j]) == s')],
        },
        'impl GlobalEnvironment::iter_slots': {
            'props': ['C03', 'C06'],
            'ensures': [(['C03'], 'r.obeys_prophetic_iter_laws() && r.decrease() is Some'),
                        (['C03'], 'r.remaining().len() == self.slots_spec().len()'),
                        (['C03'], 'forall|j: int| 0 <= j < self.slots_spec().len() ==> *(#[trigger] r.remaining()[j]) == self.slots_spec()[j]')],
        },
        'impl GlobalEnvironment::get_slot': {
            # not on the chain of C07 (the compiler does not read slots): declared for would-be callers, tagged with no claimed property
            'props': ['C06'],
            'requires': ['slot < self.slots_spec().len()'],
            'ensures': [(['C06'], inst(GET_SLOT_MODEL, 'm_slots', 'm_kept', g0='*self', r0='r'))],
        },
        # exactly the addressed slot is written
        'impl GlobalEnvironment::put_slot': {
            'props': G + ['C06'],
            'requires': ['slot < old(self).slots_spec().len()', 'old(self).wf()'],
            'inserts': [{'anchor': '= vcell;', 'where': 'after', 'text': 'proof { assert(self.bindings_spec() == old(self).bindings_spec()); assert(self.slots_spec().len() == old(self).slots_spec().len()); }'}],
            'ensures': [(G, 'final(self).wf()'),
                        (G, inst(PUT_SLOT_MODEL, 'm_slots', 'm_kept', g0='*old(self)', g1='*final(self)', v='vcell'))],
        },
    },
}]
