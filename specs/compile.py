"""Unit `compile`: marwood/src/vm/compile.rs -- the tail flag from the top level through `if` down to the emitted call (C04).

What is decided here is the compile-time half of C04: *which* call instruction the compiler emits.  A call in tail position
runs in constant stack space only if it is compiled to TCALL (run.rs rewrites the frame in place for TCALL and pushes a new
frame for CALL), so every compile function between the top level and the emitter carries a contract saying that an
application compiled with flag `tail` ends in `call_op(tail)`.
"""

import os, sys
sys.path.insert(0, os.path.dirname(os.path.abspath(__file__)))
import importlib
import builtin as _b
importlib.reload(_b)
import environment as _e
importlib.reload(_e)
P = ['C04']
PRELUDE = r'''
use crate::vm::heap::Heap;

// ---------------------------------------------------------------- the datum being compiled (Cell is transparent here)
/// n-th element of the (possibly improper) list e
pub open spec fn nth(e: Cell, n: nat) -> Option<Cell> decreases n {
    match e { Cell::Pair(a, d) => if n == 0 { Some(*a) } else { nth(*d, (n - 1) as nat) }, _ => None }
}
/// the symbols compile_procedure_application treats as special forms
pub open spec fn keyword(s: Seq<char>) -> bool {
    s == "define"@ || s == "define-syntax"@ || s == "lambda"@ || s == "λ"@ || s == "quasiquote"@ || s == "quote"@ || s == "if"@ || s == "set!"@
}
/// e is a procedure call evaluated at run time: a pair whose head is not one of the special-form symbols
pub open spec fn rt_app(e: Cell) -> bool {
    e matches Cell::Pair(a, d) && !(*a matches Cell::Symbol(s) && keyword(s@))
}
/// e is an `if` form
pub open spec fn if_form(e: Cell) -> bool { e matches Cell::Pair(a, d) && (*a matches Cell::Symbol(s) && s@ == "if"@) }
/// number of pairs along the cdr chain of e
pub open spec fn spine(e: Cell) -> nat decreases e { match e { Cell::Pair(a, d) => 1 + spine(*d), _ => 0 } }
/// a datum held in memory has fewer pairs than there are addresses (every pair owns two separate heap allocations)
#[verifier::external_body]
pub proof fn axiom_spine_fits(e: Cell) ensures spine(e) < usize::MAX {}
/// a proper list
pub uninterp spec fn proper(e: Cell) -> bool;

// ---------------------------------------------------------------- the bytecode being emitted (Lambda is transparent)
/// the call instruction an application must end in: TCALL in tail position (frame reused by run.rs), CALL otherwise
pub open spec fn call_op(tail: bool) -> VCell { VCell::OpCode(if tail { OpCode::TCallAcc } else { OpCode::CallAcc }) }
pub open spec fn ends_in_call(l: Lambda, tail: bool) -> bool { l.bc@.len() > 0 && l.bc@.last() == call_op(tail) }
/// compilation only appends: what was emitted before is still there, unchanged
pub open spec fn extends(old: Lambda, new: Lambda) -> bool {
    old.bc@.len() <= new.bc@.len() && new.bc@.subrange(0, old.bc@.len() as int) =~= old.bc@
}
/// somewhere in the code emitted since `from`, a call instruction for `tail` is directly followed by the jump to `target`
/// (the end of an `if` form): this is how the consequent of an `if` ends
pub open spec fn call_then_jump(l: Lambda, from: int, tail: bool, target: int) -> bool {
    exists|j: int| from <= j && j + 2 < l.bc@.len() && #[trigger] l.bc@[j] == call_op(tail) && l.bc@[j + 1] == VCell::OpCode(OpCode::Jmp) && l.bc@[j + 2] == VCell::Ptr(target as usize)
}
/// what compile_if owes for the form e = (if test consequent [alternate]) compiled with flag `tail`
pub open spec fn if_compiled(e: Cell, tail: bool, old: Lambda, new: Lambda) -> bool {
    &&& (nth(e, 2) matches Some(c) && rt_app(c)) ==> call_then_jump(new, old.bc@.len() as int, tail, new.bc@.len() as int)
    &&& (nth(e, 3) matches Some(a) && rt_app(a)) ==> ends_in_call(new, tail)
}

// ---------------------------------------------------------------- procedures: the body's last expression, the compiled code object
/// the element of the list e whose cdr is () -- the expression compile_lambda compiles with the tail flag set
pub open spec fn last_tail(e: Cell) -> Option<Cell> decreases e {
    match e { Cell::Pair(a, d) => if *d is Nil { Some(*a) } else { last_tail(*d) }, _ => None }
}
/// body of (lambda formals body...) / (define (name . formals) body...): everything after the second element
pub open spec fn proc_body(e: Cell) -> Option<Cell> {
    match e { Cell::Pair(a, r) => match *r { Cell::Pair(f, b) => Some(*b), _ => None }, _ => None }
}
/// the expression in tail position of the procedure form e, if its body has one
pub open spec fn proc_tail_expr(e: Cell) -> Option<Cell> { match proc_body(e) { Some(b) => last_tail(b), None => None } }
/// what a pointer designates in the (here opaque) heap
pub uninterp spec fn heap_deref(h: Heap, c: VCell) -> VCell;
/// the cell VCell::from(lambda) builds: VCell::Lambda(Rc::new(lambda))
pub uninterp spec fn lambda_cell(l: Lambda) -> VCell;
#[verifier::external_body]
pub proof fn axiom_lambda_cell(l: Lambda) ensures lambda_cell(l) matches VCell::Lambda(rc) && *rc == l {}
impl vstd::std_specs::convert::FromSpecImpl<Lambda> for VCell {
    open spec fn obeys_from_spec() -> bool { true }
    open spec fn from_spec(v: Lambda) -> VCell { lambda_cell(v) }
}
/// the code object behind the pointer that compile_lambda leaves in the enclosing bytecode ([.., MovImmediate, ptr, Acc, ClosureAcc])
/// ends in `call_op(true); Ret`
pub open spec fn code_ends_in_tail_call(h: Heap, ptr: VCell) -> bool {
    exists|l: Lambda| #[trigger] lambda_cell(l) == heap_deref(h, ptr)
        && l.bc@.len() >= 2 && l.bc@[l.bc@.len() - 2] == call_op(true) && l.bc@.last() == VCell::OpCode(OpCode::Ret)
}
pub open spec fn closure_ends_in_tail_call(h: Heap, iof: Lambda) -> bool {
    iof.bc@.len() >= 4 && code_ends_in_tail_call(h, iof.bc@[iof.bc@.len() - 3])
}

// ---------------------------------------------------------------- assumed contracts: Cell accessors (cell.rs, one-line matches)
pub assume_specification [Cell::car] (c: &Cell) -> (r: Option<&Cell>) ensures r == (match *c { Cell::Pair(a, d) => Some(&*a), _ => None });
pub assume_specification [Cell::cdr] (c: &Cell) -> (r: Option<&Cell>) ensures r == (match *c { Cell::Pair(a, d) => Some(&*d), _ => None });
pub assume_specification [Cell::is_pair] (c: &Cell) -> (r: bool) ensures r == (*c is Pair);
pub assume_specification [Cell::is_nil] (c: &Cell) -> (r: bool) ensures r == (*c is Nil);
pub assume_specification [Cell::is_list] (c: &Cell) -> (r: bool) ensures r ==> proper(*c);
/// the elements of a proper list in order, and nothing past its length
pub assume_specification [Cell::collect_vec] (c: &Cell) -> (r: Vec<&Cell>)
    ensures proper(*c) ==> (forall|i: nat| i < r@.len() ==> #[trigger] nth(*c, i) == Some(*r@[i as int])) && (forall|i: nat| i >= r@.len() ==> #[trigger] nth(*c, i) is None);
pub assume_specification [<Cell as Clone>::clone] (c: &Cell) -> (r: Cell) ensures r == *c;
impl vstd::std_specs::fmt::DisplaySpecImpl for Cell { open spec fn fmt_req(&self, f: &core::fmt::Formatter<'_>) -> bool { true } }
/// two string slices with the same characters are the same slice value
#[verifier::external_body]
pub proof fn axiom_str_ext(a: &str, b: &str) requires a@ == b@ ensures a == b {}

// ---------------------------------------------------------------- assumed contracts: emitting
impl vstd::std_specs::convert::FromSpecImpl<OpCode> for VCell {
    open spec fn obeys_from_spec() -> bool { true }
    open spec fn from_spec(v: OpCode) -> VCell { VCell::OpCode(v) }
}
/// core's `impl<T> From<T> for T` is the identity (vstd has no specification for it)
#[verifier::external_body]
pub proof fn axiom_into_self() ensures <VCell as vstd::std_specs::convert::IntoSpec<VCell>>::obeys_into_spec(),
    forall|v: VCell| #[trigger] <VCell as vstd::std_specs::convert::IntoSpec<VCell>>::into_spec(v) == v {}
// VCell::ptr: verified in unit vcell (part of this group)
pub assume_specification [Heap::maybe_put_cell] (h: &mut Heap, c: &Cell) -> (r: VCell);
// helpers of the compile functions whose results the contracts say nothing about
/// put_cell answers a pointer: an immediate is boxed by Heap::put (heap.rs: `if vcell.is_ptr() { vcell } else { self.put(vcell) }`)
pub assume_specification [Heap::put_cell] (h: &mut Heap, c: &Cell) -> (r: VCell) ensures r is Ptr;
/// the shared model of Heap::put (specs/builtin.py: PUT_MODEL_TEMPLATE; unit `heap` proves it on the real body), over this module's views
pub uninterp spec fn heap_live(h: Heap, c: VCell) -> bool;
pub open spec fn put_model(h0: Heap, h1: Heap, x: VCell, r: VCell) -> bool {
PUT_MODEL_BODY
}
pub assume_specification<T: Into<VCell> + Clone> [Heap::put] (h: &mut Heap, v: T) -> (r: VCell)
    ensures <T as vstd::std_specs::convert::IntoSpec<VCell>>::obeys_into_spec() ==> put_model(*old(h), *final(h), <T as vstd::std_specs::convert::IntoSpec<VCell>>::into_spec(v), r);
pub assume_specification [Cell::is_primitive_symbol] (c: &Cell) -> (r: bool);
pub assume_specification [Cell::is_symbol] (c: &Cell) -> (r: bool);
pub assume_specification [Cell::is_vector] (c: &Cell) -> (r: bool) ensures r == (*c is Vector);
pub assume_specification [Cell::as_vector] (c: &Cell) -> (r: Option<&Vec<Cell>>) ensures (*c is Vector) ==> r is Some;
pub assume_specification [Cell::is_unquote] (c: &Cell) -> (r: bool);
pub assume_specification [Cell::is_quasiquote] (c: &Cell) -> (r: bool);
/// an argument's index is below the argument count (binding_location searches self.args)
pub assume_specification [Lambda::binding_location] (l: &Lambda, sym: &VCell) -> (r: crate::vm::environment::BindingLocation)
    ensures r matches crate::vm::environment::BindingLocation::Argument(n) ==> n < l.args@.len();
/// the shared models of the global environment (specs/environment.py; unit `globenv` proves them on the real bodies of
/// get_binding / put_slot / get_slot), over this module's uninterpreted view.  Compilation may *create* slots (a global that is
/// mentioned gets one), it never gives one a value: values are bound by the MOV instructions the compiled code executes.
pub uninterp spec fn genv_slots(g: crate::vm::environment::GlobalEnvironment) -> Seq<VCell>;
pub open spec fn genv_kept(g0: crate::vm::environment::GlobalEnvironment, g1: crate::vm::environment::GlobalEnvironment) -> bool {
GENV_KEPT_BODY
}
pub assume_specification<T: Into<usize>> [crate::vm::environment::GlobalEnvironment::get_binding] (g: &mut crate::vm::environment::GlobalEnvironment, sym: T) -> (r: usize)
    ensures GENV_GET_BINDING;
/// declared although the compiler does not call them (yet): a compiler that did would be decided, not refused
pub assume_specification [crate::vm::environment::GlobalEnvironment::put_slot] (g: &mut crate::vm::environment::GlobalEnvironment, slot: usize, v: VCell)
    requires slot < genv_slots(*old(g)).len() ensures GENV_PUT_SLOT;
pub assume_specification [crate::vm::environment::GlobalEnvironment::get_slot] (g: &crate::vm::environment::GlobalEnvironment, slot: usize) -> (r: VCell)
    requires slot < genv_slots(*g).len() ensures GENV_GET_SLOT;
/// get takes &mut self but only reads (body: a closure over self inside Option::map, not ingestible): assumed
pub assume_specification<T: Into<usize>> [crate::vm::environment::GlobalEnvironment::get] (g: &mut crate::vm::environment::GlobalEnvironment, sym: T) -> (r: Option<VCell>)
    ensures genv_slots(*final(g)) == genv_slots(*old(g));
pub assume_specification<T: Into<usize>> [VCell::env_slot] (slot: T) -> (r: VCell);
// VCell::void: verified in unit vcell (part of this group)
pub assume_specification<T: Into<Vec<VCell>>> [VCell::vector] (x: T) -> (r: VCell);
// VCell::as_ptr: verified in unit vcell (part of this group)
pub assume_specification [crate::vm::transform::Transform::try_new] (expr: &Cell) -> (r: Result<crate::vm::transform::Transform, Error>);
pub assume_specification [crate::vm::transform::Transform::keyword] (t: &crate::vm::transform::Transform) -> (r: &Cell);

// ---------------------------------------------------------------- assumed contracts: the compile functions not under contract
// (bodies outside what Verus ingests: closures capturing &mut self in compile_lambda, ...).  Only the frame is assumed:
// they append to the bytecode.  Nothing is assumed about the tail flag.
pub assume_specification [Vm::compile_quasiquote] (vm: &mut Vm, lambda: &mut Lambda, expr: &Cell, depth: usize) -> (r: Result<(), Error>)
    ensures r is Ok ==> extends(*old(lambda), *final(lambda)), final(vm).regs() == old(vm).regs() && final(vm).stack_spec() == old(vm).stack_spec(), genv_kept(old(vm).globenv_spec(), final(vm).globenv_spec());
pub assume_specification [Vm::compile_set] (vm: &mut Vm, lambda: &mut Lambda, tail: bool, expr: &Cell) -> (r: Result<(), Error>)
    ensures r is Ok ==> extends(*old(lambda), *final(lambda)), final(vm).regs() == old(vm).regs() && final(vm).stack_spec() == old(vm).stack_spec(), genv_kept(old(vm).globenv_spec(), final(vm).globenv_spec());
pub assume_specification [Vm::compile_formal_arguments] (vm: &mut Vm, formal_args: &Cell) -> (r: Result<(Vec<VCell>, bool), Error>) ensures final(vm).regs() == old(vm).regs() && final(vm).stack_spec() == old(vm).stack_spec(), genv_kept(old(vm).globenv_spec(), final(vm).globenv_spec());
pub assume_specification<'a> [crate::vm::environment::free_symbols] (c: &'a Cell) -> (r: Result<std::collections::HashSet<&'a Cell>, Error>);
pub assume_specification<'a> [crate::vm::environment::internally_defined_symbols] (c: &'a Cell) -> (r: Result<std::collections::HashSet<&'a Cell>, Error>);
pub assume_specification [Lambda::new_from_iof] (args: Vec<VCell>, internally_defined: Vec<VCell>, iof: &Lambda, free_symbols: &[VCell], is_vararg: bool) -> (r: Lambda);
pub assume_specification [Lambda::set_desc] (l: &mut Lambda, c: Cell) ensures final(l).bc == old(l).bc;
/// macro expansion before compilation: some function of heap, global environment and the datum (transform reads nothing else:
/// symbol lookup in the heap, macro lookup in the globals, Transform::transform on the datum)
pub uninterp spec fn transformed(h: Heap, g: crate::vm::environment::GlobalEnvironment, e: Cell) -> Cell;
pub open spec fn vm_transformed(vm: Vm, e: Cell) -> Cell { transformed(vm.heap_spec(), vm.globenv_spec(), e) }
pub assume_specification [Vm::transform] (vm: &mut Vm, expr: &Cell) -> (r: Result<Cell, Error>)
    ensures r matches Ok(c) ==> c == vm_transformed(*old(vm), *expr), final(vm).regs() == old(vm).regs() && final(vm).stack_spec() == old(vm).stack_spec(), genv_kept(old(vm).globenv_spec(), final(vm).globenv_spec());

/// index form of `extends`
pub proof fn lemma_extends_index(a: Lambda, b: Lambda, i: int) requires extends(a, b), 0 <= i < a.bc@.len() ensures b.bc@[i] == a.bc@[i] {
    assert(b.bc@.subrange(0, a.bc@.len() as int)[i] == a.bc@[i]);
}
pub proof fn lemma_extends_intro(a: Lambda, b: Lambda) requires a.bc@.len() <= b.bc@.len(), forall|i: int| 0 <= i < a.bc@.len() ==> b.bc@[i] == a.bc@[i] ensures extends(a, b) {}
pub proof fn lemma_extends_trans(a: Lambda, b: Lambda, c: Lambda) requires extends(a, b), extends(b, c) ensures extends(a, c) {
    assert(c.bc@.subrange(0, a.bc@.len() as int) =~= c.bc@.subrange(0, b.bc@.len() as int).subrange(0, a.bc@.len() as int));
}
'''

PRELUDE = (PRELUDE.replace('GENV_KEPT_BODY', _e.inst(_e.KEPT_MODEL, 'genv_slots', 'genv_kept'))
           .replace('GENV_GET_BINDING', _e.inst(_e.GET_BINDING_MODEL, 'genv_slots', 'genv_kept', g0='*old(g)', g1='*final(g)', r0='r'))
           .replace('GENV_PUT_SLOT', _e.inst(_e.PUT_SLOT_MODEL, 'genv_slots', 'genv_kept', g0='*old(g)', g1='*final(g)'))
           .replace('GENV_GET_SLOT', _e.inst(_e.GET_SLOT_MODEL, 'genv_slots', 'genv_kept', g0='*g', r0='r')))
PRELUDE = PRELUDE.replace('PUT_MODEL_BODY', _b.PUT_MODEL_TEMPLATE.replace('DEREF', 'heap_deref').replace('LIVE', 'heap_live'))
NODEC = '#[verifier::exec_allows_no_decreases_clause]'
EXT = (P, 'r is Ok ==> extends(*old(lambda), *final(lambda))')
# the compiler does not touch the machine registers (eval moves the instruction pointer back after compiling)
REGS = (P + ['C07'], 'final(self).regs() == old(self).regs() && final(self).stack_spec() == old(self).stack_spec()')
# ... and binds nothing: every global keeps its value, globals that appear are undefined (C07: a form that fails to compile, or fails
# before reaching a definition, must not have performed that definition)
GENV = (['C07'], 'genv_kept(old(self).globenv_spec(), final(self).globenv_spec())')

UNITS = [{
    # the two Lambda methods the compile contracts rest on, verified against their bodies
    'name': 'lambda',
    'file': 'src/vm/lambda.rs',
    'uses_types': ['VCell', 'Lambda'],
    'prelude': '''/// std: a Vec of a non-zero-sized type never holds more than isize::MAX elements (its allocation is at most isize::MAX bytes)
#[verifier::external_body]
pub proof fn axiom_vec_len(v: &Vec<VCell>) ensures v@.len() <= isize::MAX {}
pub assume_specification [crate::vm::environment::EnvironmentMap::new] () -> (r: crate::vm::environment::EnvironmentMap);''',
    'fns': {
        'impl Lambda::emit': {
            'props': P,
            'ensures': [
                (P, '<T as vstd::std_specs::convert::IntoSpec<VCell>>::obeys_into_spec() ==> final(self).bc@ == old(self).bc@.push(<T as vstd::std_specs::convert::IntoSpec<VCell>>::into_spec(vcell))'),
                (P, 'final(self).bc@.len() == old(self).bc@.len() + 1 && final(self).bc@.subrange(0, old(self).bc@.len() as int) == old(self).bc@'),
                (P, 'final(self).args == old(self).args'),
            ],
        },
        'impl Lambda::new': {'props': P, 'ensures': [(P, 'r.bc@.len() == 0')]},
        'impl Lambda::set_top_level': {'props': P, 'ensures': [(P, 'final(self).bc == old(self).bc')]},
        # declared although the compiler does not call it yet (a compiler that did would be decided, not refused)
        'impl Lambda::is_top_level': {'props': ['C06'], 'ensures': [(['C06'], 'r == self.top_level')]},
        'impl Lambda::argc': {'props': P, 'body_start': 'proof { axiom_vec_len(&self.args); }', 'ensures': [(P, 'r == self.args@.len()'), (P, 'r <= isize::MAX')]},
    },
}, {
    'name': 'compile',
    'file': 'src/vm/compile.rs',
    'uses_types': ['CellT', 'OpCodeT', 'VCell', 'Error', 'Heap', 'Lambda', 'BindingLocation', 'GlobalEnvironment', 'Transform'],
    'prelude': PRELUDE,
    'fns': {
        # the emitter: an application compiled in tail position ends in TCALL, otherwise in CALL
        'impl Vm::compile_runtime_procedure_application': {
            'props': P, 'attrs': NODEC,
            'ensures': [REGS, GENV, EXT, (P, 'r is Ok ==> ends_in_call(*final(lambda), tail)')],
            'loops': {0: 'invariant self.regs() == old(self).regs(), self.stack_spec() == old(self).stack_spec(), genv_kept(old(self).globenv_spec(), self.globenv_spec()), extends(*old(lambda), *lambda), (n as int) + spine(*rest) <= spine(*expr), spine(*expr) < usize::MAX,'},
            'loop_count': 1,
            'body_start': 'proof { axiom_spine_fits(*expr); }',
        },
        # `if`: both branches inherit the flag of the whole form
        'impl Vm::compile_if': {
            'props': P, 'attrs': NODEC,
            'ensures': [REGS, GENV, EXT, (P, 'r is Ok ==> if_compiled(*expr, tail, *old(lambda), *final(lambda))')],
            'body_start': 'proof { axiom_into_self(); }',
            'inserts': [
                {'anchor': 'lambda.emit(OpCode::Jnt);', 'where': 'before', 'text': 'let ghost l1 = *lambda;'},
                {'anchor': 'lambda.emit(VCell::Ptr(0xCAFEBEEF));', 'nth': 0, 'where': 'after', 'text': 'let ghost l1b = *lambda;'},
                {'anchor': 'lambda.emit(OpCode::Jmp);', 'where': 'before', 'text': 'let ghost l2 = *lambda;'},
                {'anchor': 'let jmp_operand = lambda.bc.len();', 'where': 'before', 'text': 'let ghost l2b = *lambda;'},
                {'anchor': '*lambda.bc.get_mut(jnt_operand).unwrap()', 'where': 'before', 'text': 'let ghost l2c = *lambda;'},
                {'anchor': ['match alternate {', 'if let Some(alternate) = alternate {'], 'where': 'before', 'text': 'let ghost l3 = *lambda;'},
                {'anchor': '*lambda.bc.get_mut(jmp_operand).unwrap()', 'where': 'before', 'text': '''let ghost l4 = *lambda;
                    proof {
                        let l0 = *old(lambda);
                        let n0 = l0.bc@.len() as int;
                        assert forall|i: int| 0 <= i < n0 implies l3.bc@[i] == l0.bc@[i] by {
                            lemma_extends_index(l0, l1, i); lemma_extends_index(l1b, l2, i);
                        }
                        lemma_extends_intro(l0, l3);
                        lemma_extends_trans(l0, l3, l4);
                        let k = l2.bc@.len() - 1;
                        assert(nth(*expr, 2) == nth(*rest, 1nat));
                        assert(nth(*rest, 1nat) == Some(*consequent));
                        assert(nth(*expr, 3) == nth(*rest, 2nat));
                        assert(nth(*rest, 2nat) == (match alternate { Some(a) => Some(*a), None => None }));
                        assert(l2b.bc@ == l2.bc@.push(VCell::OpCode(OpCode::Jmp)));
                        assert(l3.bc@.len() == l2.bc@.len() + 2);
                        assert(l2c.bc@.subrange(0, l2b.bc@.len() as int)[k + 1] == l2b.bc@[k + 1]);
                        assert(l2c.bc@[k + 1] == VCell::OpCode(OpCode::Jmp));
                        assert(l3.bc@ =~= l2c.bc@.update(jnt_operand as int, VCell::Ptr(l3.bc@.len() as usize)));
                        assert(rt_app(*consequent) ==> jnt_operand < k) by { lemma_extends_index(l1b, l2, jnt_operand as int); }
                        assert(l3.bc@[k + 1] == VCell::OpCode(OpCode::Jmp));
                        assert(rt_app(*consequent) ==> l3.bc@[k] == call_op(tail));
                        if k >= 0 { lemma_extends_index(l1b, l2, 0); }
                        lemma_extends_index(l3, l4, k + 1);
                        if k >= l1b.bc@.len() { lemma_extends_index(l3, l4, k); }
                    }'''},
                {'anchor': 'Ok(())', 'where': 'before', 'text': '''proof {
                        let l0 = *old(lambda);
                        let lf = *lambda;
                        let k = l2.bc@.len() - 1;
                        assert(lf.bc@ =~= l4.bc@.update(jmp_operand as int, VCell::Ptr(l4.bc@.len() as usize)));
                        assert forall|i: int| 0 <= i < l0.bc@.len() implies lf.bc@[i] == l0.bc@[i] by { lemma_extends_index(l0, l4, i); }
                        lemma_extends_intro(l0, lf);
                        if nth(*expr, 2) matches Some(c) && rt_app(c) {
                            assert(lf.bc@[k] == call_op(tail));
                            assert(lf.bc@[k + 1] == VCell::OpCode(OpCode::Jmp));
                            assert(lf.bc@[k + 2] == VCell::Ptr(lf.bc@.len() as usize));
                            assert(call_then_jump(lf, l0.bc@.len() as int, tail, lf.bc@.len() as int));
                        }
                        if nth(*expr, 3) matches Some(a) && rt_app(a) {
                            assert(ends_in_call(l4, tail));
                            lemma_extends_index(l3, l4, jmp_operand as int);
                            assert(l3.bc@[jmp_operand as int] == VCell::Ptr(0xCAFEBEEFusize));
                            assert(ends_in_call(lf, tail));
                        }
                    }'''},
            ],
        },
        # dispatch on the head of a pair
        'impl Vm::compile_procedure_application': {
            'props': P, 'attrs': NODEC,
            'requires': ['*expr is Pair'],
            'body_start': '''proof {
                reveal_strlit("if"); reveal_strlit("define"); reveal_strlit("define-syntax"); reveal_strlit("lambda"); reveal_strlit("λ");
                reveal_strlit("quasiquote"); reveal_strlit("quote"); reveal_strlit("set!");
                assert forall|t: &str| #[trigger] t@ == "if"@ implies t == "if" by { axiom_str_ext(t, "if"); }
            }''',
            'ensures': [REGS, GENV, EXT,
                        (P, 'r is Ok && rt_app(*expr) ==> ends_in_call(*final(lambda), tail)'),
                        (P, 'r is Ok && if_form(*expr) ==> if_compiled(*expr, tail, *old(lambda), *final(lambda))')],
        },
        'impl Vm::compile_expression': {
            'props': P, 'attrs': NODEC,
            'ensures': [REGS, GENV, EXT,
                        (P, 'r is Ok && rt_app(*expr) ==> ends_in_call(*final(lambda), tail)'),
                        (P, 'r is Ok && if_form(*expr) ==> if_compiled(*expr, tail, *old(lambda), *final(lambda))')],
        },
        'impl Vm::compile_quote': {'props': P, 'ensures': [REGS, GENV, EXT]},
        # top level: compiling never touches the control state (C07: a compile error leaves the machine as it was)
        'impl Vm::compile_runnable': {'props': P + ['C07'], 'ensures': [REGS, GENV]},
        # procedure bodies: the last body expression is compiled with the tail flag set, so a body ending in a call ends in TCALL; Ret
        'impl Vm::compile_lambda': {
            'props': P, 'attrs': NODEC + '\n#[verifier::loop_isolation(false)]',
            'ensures': [REGS, GENV, (P, 'r is Ok ==> extends(*old(iof), *final(iof))'),
                        (P, 'r is Ok ==> ((proc_tail_expr(*expr) matches Some(e) && rt_app(e)) ==> closure_ends_in_tail_call(final(self).heap_spec(), *final(iof)))')],
            'body_start': 'proof { axiom_into_self(); }',
            'loops': {0: '''invariant
                    self.regs() == old(self).regs(), self.stack_spec() == old(self).stack_spec(), genv_kept(old(self).globenv_spec(), self.globenv_spec()),
                    (*body is Pair) ==> last_tail(*body) == proc_tail_expr(*expr),
                    !(*body is Pair) ==> ((proc_tail_expr(*expr) matches Some(e) && rt_app(e)) ==> ends_in_call(lambda, true)),'''},
            'loop_count': 1,
            'inserts': [
                {'anchor': 'lambda.emit(OpCode::Ret);', 'where': 'after', 'text': 'let ghost inner = lambda; proof { axiom_lambda_cell(inner); }'},
                {'anchor': 'Ok(())', 'where': 'before', 'text': '''proof {
                        if proc_tail_expr(*expr) matches Some(e) && rt_app(e) {
                            assert(lambda_cell(inner) == heap_deref(self.heap_spec(), iof.bc@[iof.bc@.len() - 3]));
                        }
                    }'''},
            ],
        },
        # frame only: these append to the bytecode (their tail behaviour: they never emit a call themselves)
        'impl Vm::compile_define': {'props': P, 'attrs': NODEC, 'ensures': [REGS, GENV, EXT]},
        'impl Vm::compile_define_syntax': {'props': P, 'ensures': [REGS, GENV, EXT]},
        'impl Vm::compile_symbol_expression': {'props': P, 'ensures': [REGS, GENV, EXT]},
        # entry: the flag reaches the expression that is actually compiled (the macro-expanded one)
        'impl Vm::compile': {
            'props': P,
            'ensures': [REGS, GENV, EXT,
                        (P, 'r is Ok && rt_app(vm_transformed(*old(self), *expr)) ==> ends_in_call(*final(lambda), tail)'),
                        (P, 'r is Ok && if_form(vm_transformed(*old(self), *expr)) ==> if_compiled(vm_transformed(*old(self), *expr), tail, *old(lambda), *final(lambda))')],
        },
    },
}, {
    # (eval expr): the thunk built for the datum is compiled with the tail flag set (calls made through eval from a tail position)
    'name': 'builtin_procedure_eval',
    'file': 'src/vm/builtin/procedure.rs',
    'uses_types': ['CellT', 'OpCodeT', 'VCell', 'Error', 'Heap', 'Lambda', 'Stack'],
    'prelude': r'''
use crate::vm::compile::{rt_app, vm_transformed, transformed, code_ends_in_tail_call, heap_deref, lambda_cell, call_op, ends_in_call, axiom_lambda_cell, axiom_into_self};
use crate::vm::stack::Stack; use crate::vm::heap::Heap;
/// the (here opaque) stack: what is left after popping it
/// what Vm::pop answers for stack s under heap h: the top cell read through the heap (a by-value copy of what it designates)
pub uninterp spec fn popped_value(h: Heap, s: Stack) -> VCell;
pub uninterp spec fn stack_popped(s: Stack) -> Stack;
pub uninterp spec fn heap_value(h: Heap, v: VCell) -> Cell;
/// popping touches the stack only
pub open spec fn pops(old: Vm, new: Vm) -> bool {
    new.stack_spec() == stack_popped(old.stack_spec()) && new.heap_spec() == old.heap_spec() && new.globenv_spec() == old.globenv_spec() && new.regs() == old.regs()
}
pub assume_specification [crate::vm::builtin::pop_argc] (vm: &mut Vm, min: usize, max: Option<usize>, proc: &str) -> (r: Result<usize, Error>)
    ensures r is Ok ==> pops(*old(vm), *final(vm));
pub assume_specification [Vm::pop] (vm: &mut Vm) -> (r: Result<VCell, Error>)
    ensures r matches Ok(c) ==> c == popped_value(old(vm).heap_spec(), old(vm).stack_spec()) && pops(*old(vm), *final(vm));
pub assume_specification [Heap::get_as_cell] (h: &Heap, v: &VCell) -> (r: Cell) ensures r == heap_value(*h, *v);
pub assume_specification<T: Into<VCell> + std::fmt::Display> [Stack::push] (s: &mut Stack, v: T);
/// the datum eval compiles: the cell under the argument count, read through the heap
pub open spec fn eval_datum(vm: Vm) -> Cell { heap_value(vm.heap_spec(), popped_value(vm.heap_spec(), stack_popped(vm.stack_spec()))) }
''',
    'fns': {
        '::eval': {
            'props': P,
            'requires': ['old(vm).regs().1.1 >= 1'],
            'body_start': 'proof { axiom_into_self(); }',
            'ensures': [(P, 'r matches Ok(c) ==> (rt_app(vm_transformed(*old(vm), eval_datum(*old(vm)))) ==> code_ends_in_tail_call(final(vm).heap_spec(), c))')],
            'inserts': [
                {'anchor': 'lambda.emit(OpCode::Ret);', 'where': 'after', 'text': 'let ghost inner = lambda; proof { axiom_lambda_cell(inner); }'},
                {'anchor': 'Ok(lambda)', 'where': 'before', 'text': 'proof { if rt_app(vm_transformed(*old(vm), eval_datum(*old(vm)))) { assert(lambda_cell(inner) == heap_deref(vm.heap_spec(), lambda)); } }'},
            ],
        },
    },
}, {
    # Vm::prepare_eval (vm/mod.rs): compile, box the entry code object, point %ip at it.  A compile error leaves the control state
    # (registers, stack) exactly as it was (C07); success only moves %ip
    'name': 'vm_prepare',
    'file': 'src/vm/mod.rs',
    'uses_types': ['CellT', 'OpCodeT', 'VCell', 'Error', 'Heap', 'Lambda', 'Stack'],
    'prelude': '',
    'fns': {
        'impl Vm::prepare_eval': {
            'props': ['C07', 'C13'],
            'ensures': [
                (['C07'], 'final(self).stack_spec() == old(self).stack_spec()'),
                (['C07'], 'r is Err ==> final(self).regs() == old(self).regs()'),
                (['C07'], 'crate::vm::compile::genv_kept(old(self).globenv_spec(), final(self).globenv_spec())'),
                (['C13'], 'r is Ok ==> final(self).regs().0 == old(self).regs().0 && final(self).regs().2 == old(self).regs().2 && final(self).regs().1.1 == 0'),
            ],
            'inserts': [{'anchor': 'let lambda = self.heap.put(lambda);', 'where': 'before', 'text': 'proof { crate::vm::compile::axiom_lambda_cell(lambda); }'}],
        },
    },
}]
