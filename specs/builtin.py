"""Units `builtin_mod` (vm/builtin/mod.rs: typed argument poppers) and `builtin_vector` (vm/builtin/vector.rs) -- C14, C06."""

# the model of Heap::put shared by the opaque-heap groups (DEREF / LIVE = uninterpreted views) and unit heap (concrete views)
PUT_MODEL_TEMPLATE = '''    &&& x is Ptr ==> r == x && (forall|c: VCell| #[trigger] DEREF(h1, c) == DEREF(h0, c)) && (forall|c: VCell| #[trigger] LIVE(h1, c) == LIVE(h0, c))
    &&& !(x is Ptr) ==> r is Ptr && DEREF(h1, r) == x && LIVE(h1, r)
    &&& !(x is Ptr) && !(x is Symbol) ==> !LIVE(h0, r)
    &&& forall|c: VCell| #[trigger] LIVE(h0, c) ==> LIVE(h1, c) && DEREF(h1, c) == DEREF(h0, c)
    &&& forall|c: VCell| !(c is Ptr) ==> #[trigger] DEREF(h1, c) == DEREF(h0, c)'''

# the model of Heap::get_at_index_mut (one cell handed out for writing), shared the same way; LEN = number of cells
GIM_MODEL_TEMPLATE = '''    &&& r0 == DEREF(h0, VCell::Ptr(p)) && DEREF(h1, VCell::Ptr(p)) == r1
    &&& LEN(h1) == LEN(h0)
    &&& forall|c: VCell| #[trigger] LIVE(h1, c) == LIVE(h0, c)
    &&& forall|q: usize| q != p ==> #[trigger] DEREF(h1, VCell::Ptr(q)) == DEREF(h0, VCell::Ptr(q))
    &&& forall|c: VCell| !(c is Ptr) ==> #[trigger] DEREF(h1, c) == DEREF(h0, c)'''

def inline_model(template, names, subst):
    """the conjuncts of a model template as a comma-separated ensures list, with the view functions and the parameters substituted"""
    import re as _re
    t = template
    for k, v in names.items():
        t = t.replace(k, v)
    conj = [c.strip() for c in t.split('&&&') if c.strip()]
    out = []
    for c in conj:
        for k, v in subst.items():
            c = _re.sub(r'\b%s\b' % k, v, c)
        out.append(c)
    return ',\n            '.join(out)


MOD_PRELUDE = r'''
use crate::vm::stack::Stack;
use crate::vm::heap::Heap;
use crate::cell::Cell;
/// what `heap.get(cell)` yields: the cell a pointer refers to, any other cell itself
pub uninterp spec fn heap_deref(h: Heap, c: VCell) -> VCell;
/// the cell an `Into<Cow<VCell>>` argument of Heap::get denotes
pub uninterp spec fn cow_cell<T>(x: T) -> VCell;
#[verifier::external_body]
pub proof fn axiom_cow_cell_ref(c: &VCell) ensures cow_cell::<&VCell>(c) == *c {}
pub assume_specification<'a, T: Into<std::borrow::Cow<'a, VCell>>> [Heap::get] (h: &Heap, v: T) -> (r: VCell) ensures r == heap_deref(*h, cow_cell(v));
pub assume_specification [Heap::get_as_cell] (h: &Heap, v: &VCell) -> (r: Cell);
/// allocation through the (here opaque) heap: nothing is known about the result
/// c is a pointer to an allocated cell
pub uninterp spec fn heap_live(h: Heap, c: VCell) -> bool;
/// What `Heap::put(x)` does, over the two views `deref` (what a cell designates) and `live` (allocated): a pointer is passed through
/// and nothing changes; any other value ends up in an allocated cell that holds it -- a cell that was free before, except for a
/// symbol whose name is already interned, which is answered with its existing cell; allocated cells never change and stay allocated.
/// Unit `heap` proves this model from the contract it verifies against the real body (lemma_put_model, same text over the concrete views).
pub open spec fn put_model(h0: Heap, h1: Heap, x: VCell, r: VCell) -> bool {
PUT_MODEL_BODY
}
pub assume_specification<T: Into<VCell> + Clone> [Heap::put] (h: &mut Heap, v: T) -> (r: VCell)
    ensures <T as vstd::std_specs::convert::IntoSpec<VCell>>::obeys_into_spec() ==> put_model(*old(h), *final(h), <T as vstd::std_specs::convert::IntoSpec<VCell>>::into_spec(v), r);
pub assume_specification<T: Into<VCell> + Clone> [Heap::maybe_put] (h: &mut Heap, v: T) -> (r: VCell);
/// Vm::pop (run.rs): pops one cell and reads it through the heap (a by-value copy of what the cell designates, not the cell)
pub assume_specification [Vm::pop] (vm: &mut Vm) -> (r: Result<VCell, Error>)
    requires old(vm).stack_spec().wf()
    ensures old(vm).stack_spec().sp_spec() > 0 ==> (r matches Ok(c) && c == heap_deref(old(vm).heap_spec(), arg(*old(vm), 0)) && popped(*old(vm), *final(vm), 1)),
            r is Err ==> final(vm).stack_spec().wf();
/// rendering a datum / a number for an error message cannot fail
impl vstd::std_specs::fmt::DisplaySpecImpl for Cell { open spec fn fmt_req(&self, f: &core::fmt::Formatter<'_>) -> bool { true } }
impl vstd::std_specs::fmt::DisplaySpecImpl for Number { open spec fn fmt_req(&self, f: &core::fmt::Formatter<'_>) -> bool { true } }
/// Number::to_usize as a function of the number (exact non-negative integers that fit)
pub uninterp spec fn num_to_usize(n: Number) -> Option<usize>;
pub assume_specification [Number::to_usize] (n: &Number) -> (r: Option<usize>) ensures r == num_to_usize(*n);
/// the number / index / vector a popped argument cell denotes, if it is one
pub open spec fn cell_number(h: Heap, c: VCell) -> Option<Number> { match heap_deref(h, c) { VCell::Number(n) => Some(n), _ => None } }
pub open spec fn cell_index(h: Heap, c: VCell) -> Option<usize> { match heap_deref(h, c) { VCell::Number(n) => num_to_usize(n), _ => None } }
pub open spec fn cell_vector(h: Heap, c: VCell) -> Option<Rc<Vector>> { match heap_deref(h, c) { VCell::Vector(v) => Some(v), _ => None } }
/// k-th cell from the top of the stack (k = 0: the top, i.e. the argument count when a builtin is entered)
pub open spec fn arg(vm: Vm, k: int) -> VCell { vm.stack_spec().cells()[vm.stack_spec().sp_spec() - k] }
/// the machine except its stack pointer is left alone, and `n` cells were popped
pub open spec fn popped(old: Vm, new: Vm, n: int) -> bool {
    &&& new.stack_spec().wf() && new.stack_spec().cells() == old.stack_spec().cells() && new.stack_spec().sp_spec() == old.stack_spec().sp_spec() - n
    &&& new.heap_spec() == old.heap_spec() && new.globenv_spec() == old.globenv_spec() && new.regs() == old.regs() && new.acc_spec() == old.acc_spec()
}
'''

POP_REQ = ['old(vm).stack_spec().wf()']
T = ['C14', 'C06']

VEC_PRELUDE = r'''
use crate::vm::builtin::*;
use crate::{vector_view, vector_written};
pub open spec fn vlen(v: Rc<Vector>) -> int { vector_view(*v).len() as int }
/// enough stacked cells for argc + n arguments
pub open spec fn has_args(vm: Vm, n: int) -> bool { vm.stack_spec().sp_spec() >= n }
/// arguments of (vector-copy! to at from [start [end]]) as they sit on the stack under the argument count n
pub open spec fn vc_to(vm: Vm, n: int) -> Option<Rc<Vector>> { cell_vector(vm.heap_spec(), arg(vm, n)) }
pub open spec fn vc_at(vm: Vm, n: int) -> Option<usize> { cell_index(vm.heap_spec(), arg(vm, n - 1)) }
pub open spec fn vc_from(vm: Vm, n: int) -> Option<Rc<Vector>> { cell_vector(vm.heap_spec(), arg(vm, n - 2)) }
pub open spec fn vc_start(vm: Vm, n: int) -> Option<usize> { if n >= 4 { cell_index(vm.heap_spec(), arg(vm, n - 3)) } else { Some(0usize) } }
pub open spec fn vc_end(vm: Vm, n: int, from: Rc<Vector>) -> Option<usize> { if n == 5 { cell_index(vm.heap_spec(), arg(vm, 1)) } else { Some(vlen(from) as usize) } }
/// R7RS: element i of `from`, start <= i < end, lands at to[at + (i - start)], and all of it fits
pub open spec fn vector_copied(to: Rc<Vector>, at: int, from: Rc<Vector>, start: int, end: int) -> bool {
    &&& 0 <= start <= end <= vlen(from) && 0 <= at && at + (end - start) <= vlen(to)
    &&& forall|i: int| start <= i < end ==> #[trigger] vector_written(*to, at + (i - start), vector_view(*from)[i])
}
/// j-th cell of the list that starts at (dereferenced) cell `start`, following cdr pointers through heap h
pub open spec fn list_cell(h: crate::vm::heap::Heap, start: VCell, j: nat) -> VCell decreases j {
    if j == 0 { start } else { match list_cell(h, start, (j - 1) as nat) { VCell::Pair(a, d) => heap_deref(h, VCell::Ptr(d)), _ => VCell::Undefined } }
}
/// std: `impl<T> From<T> for T` is the identity
#[verifier::external_body]
pub proof fn axiom_vcell_into_self_v()
    ensures <VCell as vstd::std_specs::convert::IntoSpec<VCell>>::obeys_into_spec(),
            forall|c: VCell| #[trigger] <VCell as vstd::std_specs::convert::IntoSpec<VCell>>::into_spec(c) == c {}
/// the list that starts at pointer `start` has exactly the elements s and ends in (): the car of the j-th pair designates s[j] -- a
/// pointer value is stored as itself, any other value in an allocated cell that holds it -- and every cell of the list is allocated
pub open spec fn list_of(h: crate::vm::heap::Heap, start: VCell, s: Seq<VCell>) -> bool decreases s.len() {
    heap_live(h, start) && if s.len() == 0 { heap_deref(h, start) is Nil } else {
        heap_deref(h, start) matches VCell::Pair(a, d)
        && (if s[0] is Ptr { VCell::Ptr(a) == s[0] } else { heap_live(h, VCell::Ptr(a)) && heap_deref(h, VCell::Ptr(a)) == s[0] })
        && list_of(h, VCell::Ptr(d), s.subrange(1, s.len() as int))
    }
}
/// a heap change that keeps every allocated cell allocated and unchanged keeps every list
pub proof fn lemma_list_of_preserved(h: crate::vm::heap::Heap, h2: crate::vm::heap::Heap, start: VCell, s: Seq<VCell>)
    requires list_of(h, start, s), forall|c: VCell| #[trigger] heap_live(h, c) ==> heap_live(h2, c) && heap_deref(h2, c) == heap_deref(h, c)
    ensures list_of(h2, start, s)
    decreases s.len()
{
    if s.len() > 0 {
        match heap_deref(h, start) { VCell::Pair(a, d) => { lemma_list_of_preserved(h, h2, VCell::Ptr(d), s.subrange(1, s.len() as int)); } _ => {} }
    }
}
/// contents of a vector handle (by reference: ghost lets in exec code may not move the Rc)
pub open spec fn rc_view(v: &Rc<Vector>) -> Seq<VCell> { vector_view(**v) }
/// allocated cells stay allocated and keep their content
pub open spec fn heap_extended(h: crate::vm::heap::Heap, h2: crate::vm::heap::Heap) -> bool {
    forall|c: VCell| #[trigger] heap_live(h, c) ==> heap_live(h2, c) && heap_deref(h2, c) == heap_deref(h, c)
}
/// address comparison of two references (used by vector-copy! to detect that source and destination are one vector)
/// the slot of the destination that element j of the source goes to
pub open spec fn copy_dest(at: int, start: int, j: int) -> int { at + (j - start) }
/// two handles on one allocation: for interior-mutable payloads (Vector) a store through one is seen through the other
pub uninterp spec fn rc_same<T: ?Sized, A: core::alloc::Allocator>(a: std::rc::Rc<T, A>, b: std::rc::Rc<T, A>) -> bool;
pub assume_specification<T: ?Sized, A: core::alloc::Allocator> [std::rc::Rc::<T, A>::ptr_eq] (a: &std::rc::Rc<T, A>, b: &std::rc::Rc<T, A>) -> (r: bool) ensures r == rc_same(*a, *b);
pub uninterp spec fn into_vec<T>(x: T) -> Seq<VCell>;
#[verifier::external_body]
pub proof fn axiom_into_vec() ensures forall|x: Vec<VCell>| #[trigger] into_vec::<Vec<VCell>>(x) == x@ {}
pub assume_specification<T: Into<Vec<VCell>>> [VCell::vector] (x: T) -> (r: VCell)
    ensures r matches VCell::Vector(v) && vector_view(*v) == into_vec(x);
'''

MOD_PRELUDE = MOD_PRELUDE.replace('PUT_MODEL_BODY', PUT_MODEL_TEMPLATE.replace('DEREF', 'heap_deref').replace('LIVE', 'heap_live'))

UNITS = [
    {
        'name': 'builtin_mod',
        'file': 'src/vm/builtin/mod.rs',
        'uses_types': ['VCell', 'Error', 'Heap', 'Vector', 'VectorView', 'Cell', 'Number'],
        'prelude': MOD_PRELUDE,
        'fns': {
            '::pop_argc': {
                'props': T, 'requires': POP_REQ, 'body_start': 'proof { if old(vm).stack_spec().sp_spec() > 0 { axiom_cow_cell_ref(&arg(*old(vm), 0)); } }',
                'ensures': [
                    (T, 'r is Ok ==> popped(*old(vm), *final(vm), 1)'),
                    (T, 'r matches Ok(n) ==> old(vm).stack_spec().sp_spec() > 0 && arg(*old(vm), 0) == VCell::ArgumentCount(n) && n >= min && (max matches Some(m) ==> n <= m)'),
                    (T, 'forall|n: usize| (old(vm).stack_spec().sp_spec() > 0 && arg(*old(vm), 0) == VCell::ArgumentCount(n) && n >= min && (max matches Some(m) ==> n <= m)) ==> r is Ok'),
                    (T, 'r is Err ==> final(vm).stack_spec().wf()'),
                ],
            },
            '::pop_number': {
                'props': T + ['C08'], 'requires': POP_REQ, 'body_start': 'proof { if old(vm).stack_spec().sp_spec() > 0 { axiom_cow_cell_ref(&arg(*old(vm), 0)); } }',
                'ensures': [
                    (T, 'r is Ok ==> popped(*old(vm), *final(vm), 1)'),
                    (T, 'r matches Ok(n) ==> old(vm).stack_spec().sp_spec() > 0 && cell_number(old(vm).heap_spec(), arg(*old(vm), 0)) == Some(n)'),
                    (T, 'r is Err ==> final(vm).stack_spec().wf()'),
                ],
            },
            '::pop_index': {
                'props': T, 'requires': POP_REQ, 'body_start': 'proof { if old(vm).stack_spec().sp_spec() > 0 { axiom_cow_cell_ref(&arg(*old(vm), 0)); } }',
                'ensures': [
                    (T, 'r is Ok ==> popped(*old(vm), *final(vm), 1)'),
                    (T, 'r matches Ok(i) ==> old(vm).stack_spec().sp_spec() > 0 && cell_index(old(vm).heap_spec(), arg(*old(vm), 0)) == Some(i)'),
                    (T, '(old(vm).stack_spec().sp_spec() > 0 && cell_index(old(vm).heap_spec(), arg(*old(vm), 0)) is Some) ==> r is Ok'),
                    (T, 'r is Err ==> final(vm).stack_spec().wf()'),
                ],
            },
            '::pop_vector': {
                'props': T, 'requires': POP_REQ, 'body_start': 'proof { if old(vm).stack_spec().sp_spec() > 0 { axiom_cow_cell_ref(&arg(*old(vm), 0)); } }',
                'ensures': [
                    (T, 'r is Ok ==> popped(*old(vm), *final(vm), 1)'),
                    (T, 'r matches Ok(v) ==> old(vm).stack_spec().sp_spec() > 0 && cell_vector(old(vm).heap_spec(), arg(*old(vm), 0)) == Some(v)'),
                    (T, '(old(vm).stack_spec().sp_spec() > 0 && cell_vector(old(vm).heap_spec(), arg(*old(vm), 0)) is Some) ==> r is Ok'),
                    (T, 'r is Err ==> final(vm).stack_spec().wf()'),
                ],
            },
        },
    },
    {
        'name': 'builtin_vector',
        'file': 'src/vm/builtin/vector.rs',
        'uses_types': ['VCell', 'Error', 'Heap', 'Vector', 'VectorView', 'RcAsRef', 'Number'],
        'prelude': VEC_PRELUDE,
        'fns': {
            '::vector': {'props': T, 'requires': POP_REQ,
                         'loops': {0: '''invariant outv@.len() == len, vm.stack_spec().wf(),'''}, 'loop_count': 1},
            '::vector_length': {'props': T, 'requires': POP_REQ},
            '::vector_copy': {'props': T, 'requires': POP_REQ,
                'ensures': [
                    # with a start index only (the optional end is excluded by the property): a fresh vector holding view[start..]
                    (['C14'], '''r matches Ok(x) ==> (arg(*old(vm), 0) == VCell::ArgumentCount(2) ==> (cell_index(old(vm).heap_spec(), arg(*old(vm), 1)) matches Some(s)
                        && (cell_vector(old(vm).heap_spec(), arg(*old(vm), 2)) matches Some(v) && s <= vlen(v)
                        && (x matches VCell::Vector(nv) && vector_view(*nv) == vector_view(*v).subrange(s as int, vlen(v))))))'''),
                    # R7RS: every start with 0 <= start <= length is valid (start = length gives the empty vector): never refused
                    (['C14'], '''(arg(*old(vm), 0) == VCell::ArgumentCount(2) && has_args(*old(vm), 3)
                        && (cell_index(old(vm).heap_spec(), arg(*old(vm), 1)) matches Some(s) && cell_vector(old(vm).heap_spec(), arg(*old(vm), 2)) matches Some(v) && s <= vlen(v))) ==> r is Ok'''),
                ],
                'body_start': 'proof { axiom_into_vec(); }',
            },
            '::vector_ref': {
                'props': T, 'requires': POP_REQ,
                'ensures': [
                    (['C14'], '''r matches Ok(x) ==> (cell_index(old(vm).heap_spec(), arg(*old(vm), 1)) matches Some(i) && cell_vector(old(vm).heap_spec(), arg(*old(vm), 2)) matches Some(v)
                        && i < vlen(v) && x == vector_view(*v)[i as int] && popped(*old(vm), *final(vm), 3))'''),
                    (['C14'], '''r matches Err(e) && (arg(*old(vm), 0) == VCell::ArgumentCount(2)) && has_args(*old(vm), 3)
                        && (cell_index(old(vm).heap_spec(), arg(*old(vm), 1)) matches Some(i) && cell_vector(old(vm).heap_spec(), arg(*old(vm), 2)) matches Some(v) && i < vlen(v)) ==> false'''),
                ],
            },
            '::vector_set': {
                'props': T, 'requires': POP_REQ,
                'ensures': [
                    # success means: the very cell that was passed is stored at the index that was passed, which is in range
                    (['C14'], '''r is Ok ==> (cell_index(old(vm).heap_spec(), arg(*old(vm), 2)) matches Some(i) && cell_vector(old(vm).heap_spec(), arg(*old(vm), 3)) matches Some(v)
                        && i < vlen(v) && vector_written(*v, i as int, arg(*old(vm), 1)) && popped(*old(vm), *final(vm), 4))'''),
                    # an in-range store is never refused
                    (['C14'], '''(arg(*old(vm), 0) == VCell::ArgumentCount(3) && has_args(*old(vm), 4)
                        && (cell_index(old(vm).heap_spec(), arg(*old(vm), 2)) matches Some(i) && cell_vector(old(vm).heap_spec(), arg(*old(vm), 3)) matches Some(v) && i < vlen(v))) ==> r is Ok'''),
                ],
            },
            '::vector_mut_copy': {
                'props': T, 'requires': POP_REQ, 'attrs': '#[verifier::rlimit(60)]',
                'ensures': [
                    (['C14'], '''r is Ok ==> (arg(*old(vm), 0) matches VCell::ArgumentCount(n) && 3 <= n <= 5
                        && (vc_to(*old(vm), n as int) matches Some(to) && vc_at(*old(vm), n as int) matches Some(at) && vc_from(*old(vm), n as int) matches Some(from)
                            && vc_start(*old(vm), n as int) matches Some(start) && vc_end(*old(vm), n as int, from) matches Some(end)
                            && vector_copied(to, at as int, from, start as int, end as int)))'''),
                    # R7RS: every 0 <= start <= end <= (length from) with (length to) - at >= end - start is valid, including the empty
                    # copies with start = (length from) or at = (length to): never refused
                    (['C14'], '''(arg(*old(vm), 0) matches VCell::ArgumentCount(n) && 3 <= n <= 5 && has_args(*old(vm), n as int + 1)
                        && (vc_to(*old(vm), n as int) matches Some(to) && vc_at(*old(vm), n as int) matches Some(at) && vc_from(*old(vm), n as int) matches Some(from)
                            && vc_start(*old(vm), n as int) matches Some(start) && vc_end(*old(vm), n as int, from) matches Some(end)
                            && start <= end && end <= vlen(from) && at + (end - start) <= vlen(to))) ==> r is Ok'''),
                ],
                # two loops since the overlap fix: backwards when source and destination are one vector and the destination lies higher
                'loop_iter': {0: 'itb'},
                'loops': {0: '''invariant
                        start <= end <= vector_view(*from_vector).len(), at + (end - start) <= vector_view(*to_vector).len(), vector_view(*to_vector).len() <= usize::MAX,
                        forall|j: int| end - itb.index@ <= j < end ==> #[trigger] vector_written(*to_vector, at + (j - start), vector_view(*from_vector)[j]),''',
                    1: '''invariant
                        start <= end <= vector_view(*from_vector).len(), at + (end - start) <= vector_view(*to_vector).len(), vector_view(*to_vector).len() <= usize::MAX,
                        forall|j: int| start <= j < i ==> #[trigger] vector_written(*to_vector, at + (j - start), vector_view(*from_vector)[j]),'''},
                'loop_count': 2,
                # Vector::get is modelled against the contents at entry (vector_view is a function of the handle).  That is what a read
                # returns as long as the slot read has not been stored to before: always, when source and destination are different
                # allocations; when they are one vector, only if slot i is not among the slots already written -- which each loop proves
                # here for its own direction (R7RS: the copy behaves as if the source were first copied to a temporary)
                'loop_obligations': {
                    0: [(['C14'], 'rc_same(to_rc, from_rc) ==> forall|j: int| i < j < end ==> #[trigger] copy_dest(at as int, start as int, j) != i')],
                    1: [(['C14'], 'rc_same(to_rc, from_rc) ==> forall|j: int| start <= j < i ==> #[trigger] copy_dest(at as int, start as int, j) != i')],
                },
            },
            '::make_vector': {
                'props': T, 'requires': POP_REQ,
                'body_start': 'proof { axiom_into_vec(); if old(vm).stack_spec().sp_spec() > 2 { axiom_cow_cell_ref(&arg(*old(vm), 1)); axiom_cow_cell_ref(&arg(*old(vm), 2)); } else if old(vm).stack_spec().sp_spec() > 1 { axiom_cow_cell_ref(&arg(*old(vm), 1)); } }',
                'ensures': [
                    # k slots, every one holding the fill argument itself (0 when none is given)
                    (['C14'], '''r matches Ok(x) ==> (arg(*old(vm), 0) matches VCell::ArgumentCount(n) && (x matches VCell::Vector(nv)
                        && (n == 2 ==> (cell_index(old(vm).heap_spec(), arg(*old(vm), 2)) == Some(vlen(nv) as usize) && forall|i: int| 0 <= i < vlen(nv) ==> #[trigger] vector_view(*nv)[i] == arg(*old(vm), 1)))
                        && (n == 1 ==> cell_index(old(vm).heap_spec(), arg(*old(vm), 1)) == Some(vlen(nv) as usize))))'''),
                ],
            },
            '::vector_to_list': {
                'props': T, 'requires': POP_REQ,
                'ensures': [
                    # a fresh proper list of exactly the vector's elements, in order, each car designating the element itself;
                    # no allocated cell is changed (the vector and everything else keep their contents)
                    (['C14'], '''r matches Ok(t) ==> (cell_vector(old(vm).heap_spec(), arg(*old(vm), 1)) matches Some(v)
                        && list_of(final(vm).heap_spec(), t, vector_view(*v)) && heap_extended(old(vm).heap_spec(), final(vm).heap_spec()))'''),
                ],
                'body_start': 'proof { axiom_vcell_into_self_v(); }',
                'loop_iter': {0: 'it0'},
                'loops': {0: '''invariant
                        tail is Ptr, heap_extended(old(vm).heap_spec(), vm.heap_spec()),
                        list_of(vm.heap_spec(), tail, rc_view(&vector).subrange(rc_view(&vector).len() - it0.index@, rc_view(&vector).len() as int)),'''},
                'loop_count': 1,
                'inserts': [
                    {'anchor': 'Ok(tail)', 'where': 'before', 'text': 'proof { assert(rc_view(&vector).subrange(0, rc_view(&vector).len() as int) =~= rc_view(&vector)); }'},
                    {'loop_start': 0, 'text': 'let ghost h0 = vm.heap_spec(); let ghost t0 = tail; let ghost done = rc_view(&vector).subrange(rc_view(&vector).len() - it0.index@, rc_view(&vector).len() as int);'},
                    {'loop_end': 0, 'text': '''proof {
                        let view = rc_view(&vector); let n = view.len() as int; let c = it0.index@;
                        let now = view.subrange(n - c - 1, n);
                        assert(now.subrange(1, now.len() as int) =~= done);
                        assert(now[0] == view[n - c - 1]);
                        lemma_list_of_preserved(h0, vm.heap_spec(), t0, done);
                    }'''},
                ],
            },
            '::list_to_vector': {
                'props': T, 'requires': POP_REQ,
                # a circular list makes this loop run forever (R7RS requires a proper list here): termination is not claimed
                'attrs': '#[verifier::exec_allows_no_decreases_clause]',
                'ensures': [
                    # element j of the new vector is the very object in the car of the j-th pair (a pointer to it), not a copy
                    (['C14'], '''r matches Ok(x) ==> (x matches VCell::Vector(nv) && (forall|j: int| 0 <= j < vlen(nv) ==>
                        (#[trigger] list_cell(old(vm).heap_spec(), heap_deref(old(vm).heap_spec(), arg(*old(vm), 1)), j as nat) matches VCell::Pair(a, d) && vector_view(*nv)[j] == VCell::Ptr(a))))'''),
                    # ... and that is the whole list: after these pairs comes (), an improper list is an error and not a shorter vector
                    (['C14'], '''r matches Ok(x) ==> (x matches VCell::Vector(nv) && list_cell(old(vm).heap_spec(), heap_deref(old(vm).heap_spec(), arg(*old(vm), 1)), vlen(nv) as nat) is Nil)'''),
                ],
                'body_start': 'proof { axiom_into_vec(); if old(vm).stack_spec().sp_spec() > 1 { axiom_cow_cell_ref(&arg(*old(vm), 1)); } }',
                'loops': {0: '''invariant
                        vm.heap_spec() == old(vm).heap_spec(),
                        list == list_cell(old(vm).heap_spec(), heap_deref(old(vm).heap_spec(), arg(*old(vm), 1)), outv@.len() as nat),
                        forall|j: int| 0 <= j < outv@.len() ==> (#[trigger] list_cell(old(vm).heap_spec(), heap_deref(old(vm).heap_spec(), arg(*old(vm), 1)), j as nat) matches VCell::Pair(a, d) && outv@[j] == VCell::Ptr(a)),'''},
                'loop_count': 1,
                'inserts': [{'loop_start': 0, 'text': 'proof { match list { VCell::Pair(a, d) => { axiom_cow_cell_ref(&VCell::Ptr(d)); } _ => {} } }'}],
            },
            '::vector_fill': {
                'props': T, 'requires': POP_REQ,
                'ensures': [
                    (['C14'], '''r is Ok ==> (cell_vector(old(vm).heap_spec(), arg(*old(vm), 2)) matches Some(v)
                        && (forall|k: int| 0 <= k < vlen(v) ==> #[trigger] vector_written(*v, k, arg(*old(vm), 1))) && popped(*old(vm), *final(vm), 3))'''),
                ],
                'loops': {0: '''invariant
                        forall|k: int| 0 <= k < idx ==> #[trigger] vector_written(*vector, k, value),'''},
                'loop_count': 1,
            },
        },
    },
]
