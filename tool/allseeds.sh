#!/bin/bash
# run every seeded change against its property; print one line each
cd /verif
for d in seeded/C*; do
  tool/seedrun.sh $d 2>&1 | grep -v WARNING | tail -1 | cut -c1-200
done
echo ALLSEEDS-DONE
