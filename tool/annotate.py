"""In-place annotator: turns a scratch copy of the real crate into Verus input.

For every active unit (see /verif/specs/*.py) it edits exactly one source file of the copy:
  * wraps the named type items and the impl blocks / free functions that hold contracted functions
    in `verus!{ }`;
  * splices requires / ensures / decreases between signature and body, names the result `(r: T)`;
  * splices loop invariants by (function, loop ordinal) and ghost `proof{}` text at textual anchors;
  * marks every other function of a wrapped impl `#[verifier::external]`;
  * appends the unit's prelude (spec fns, assumed specs, axioms) in its own verus!{} block;
  * applies the *listed* executable rewrites inside contracted bodies only (REWRITES below).
Everything else in the file is left byte-for-byte as it is in /repo.
"""
import hashlib
import re

from rustscan import Src, AnchorLost, find_items, find_fns, find_loops

# The complete list of executable-text rewrites (documented in DESIGN.md section 2.1).
#   name -> (regex, replacement)
REWRITES = {
    'drop_trace': None,  # handled specially: whole `trace!( ... );` statement removed
    'f64_nan': (r'\bf64::NAN\b', 'crate::verif_rt::f64_nan()'),
    'f64_max': (r'\bf64::MAX\b', 'crate::verif_rt::f64_max()'),
    # `opt.unwrap_or_else(|| v.len())` -> `opt.unwrap_or(v.len())`: closure results are opaque to Verus; the argument is a
    # pure length read (no side effect, cannot fail), so eager evaluation is equivalent
    'unwrap_or_else_len': (r'\.unwrap_or_else\(\|\|\s*([A-Za-z_][A-Za-z_0-9]*)\.len\(\)\)', r'.unwrap_or(\1.len())'),
    # `match S { [a, b] => E1, [a, b, c] => E2, _ => E3 }` (Verus has no slice patterns) ->
    # `match S { __s => if __s.len() == 2 { let a = &__s[0]; let b = &__s[1]; E1 } else if __s.len() == 3 { ... } else { E3 } }`
    # the standard desugaring of fixed-length slice patterns of plain bindings; handled by slice_match_rewrite below
    'slice_match': None,
    # `let v = E.iter()[.inspect(|it| trace!(..))].map(|x| B).collect::<Vec<T>>();` (a closure capturing `&mut self`, which Verus
    # refuses) -> `let v = { let __src = E; let mut __v: Vec<T> = Vec::new(); for x in __src.iter() { __v.push(B); } __v };`
    # map + collect into a Vec is, by definition of the adapters, "apply B to each element in order and push"; the inspect stage
    # is dropped only when its closure body is exactly one trace!(..) (logging).  Handled by map_collect_rewrite below.
    'map_collect': None,
}

# run-time helpers emitted once into lib.rs (outside verus!, ordinary Rust, #[inline(always)])
VERIF_RT = '''
verus!{
pub mod verif_rt {
    use vstd::prelude::*;
    #[verifier::external_body] #[inline(always)] pub fn f64_nan() -> (r: f64) { f64::NAN }
    #[verifier::external_body] #[inline(always)] pub fn f64_max() -> (r: f64) { f64::MAX }
}
}
'''


def sha(s):
    return hashlib.sha256(s.encode()).hexdigest()[:16]


def clause_list(x):
    """normalise a clause spec: str | (props, str) | list of those  ->  list of (props|None, str)"""
    if x is None:
        return []
    if isinstance(x, (str, tuple)):
        x = [x]
    out = []
    for c in x:
        if isinstance(c, str):
            out.append((None, c))
        else:
            out.append((list(c[0]) if not isinstance(c[0], str) else [c[0]], c[1]))
    return out


class FnInfo:
    def __init__(self, unit, key, spec):
        self.unit = unit
        self.key = key
        self.spec = spec
        self.props = list(spec.get('props', []))
        self.clauses = []  # (kind, idx, props, text)
        self.body_sha_repo = None
        self.body_sha_verus = None
        self.rewrites_applied = []
        self.line_lo = None
        self.line_hi = None
        self.clause_lines = {}
        self.trusted = bool(spec.get('trusted'))
        self.degraded = []


def split_key(key):
    if '::' not in key:
        return '', key
    i = key.rindex('::')
    return key[:i], key[i + 2:]


def for_each_loops(text, ob, cb):
    """mechanical desugaring of iterator-adapter statements inside one function body (text[ob..cb]):

        E.for_each(|P| B);                      ->  for P in E { B; }
        E.filter_map(|Q| F).for_each(|P| B);    ->  for Q in E { if let Some(P) = F { B; } }

    (Iterator::for_each is documented as the for loop over the same iterator; filter_map yields the `Some` payloads of F in order.)
    Verus refuses closures that capture `&mut` state; the loops it can verify.  Returns the new text of the body."""
    while True:
        src = Src(text)
        hit = None
        for mt in src.find_code(r'\.\s*for_each\s*\(', ob, cb):
            op = text.index('(', mt.start())
            cp = src.match_close(op)
            j = cp + 1
            while text[j] in ' \t\n':
                j += 1
            if text[j] != ';':
                continue
            mc = re.match(r'\s*\|([^|]*)\|\s*', text[op + 1:cp])
            if not mc:
                continue
            # statement start: back to the previous `;`, `{` or `}` in code
            k = mt.start() - 1
            while k > ob and not (src.mask[k] and text[k] in ';{}'):
                k -= 1
            hit = (k + 1, mt.start(), op, cp, j, mc)
            break
        if not hit:
            return text, cb
        st, dot, op, cp, semi, mc = hit
        recv = text[st:dot]
        lead = recv[:len(recv) - len(recv.lstrip())]
        e = ' '.join(recv.split())
        pat = mc.group(1).strip()
        body = text[op + 1 + mc.end():cp].strip()
        fm = re.search(r'\.\s*filter_map\s*\(\s*\|([^|]*)\|\s*', e)
        if fm and e.endswith(')') and Src(e).match_close(e.index('(', fm.start())) == len(e) - 1:
            inner = e[fm.end():-1].strip()
            rep = '%sfor %s in %s { if let Some(%s) = %s { %s; } }' % (lead, fm.group(1).strip(), e[:fm.start()].replace(' .', '.'), pat, inner, body)
        else:
            rep = '%sfor %s in %s { %s; }' % (lead, pat, e.replace(' .', '.'), body)
        text = text[:st] + rep + text[semi + 1:]
        cb += len(rep) - (semi + 1 - st)


F64_GATE_RE = re.compile(r'\(\s*([A-Za-z_][A-Za-z0-9_.()]*)\s+as\s+f64\s*/\s*([A-Za-z_][A-Za-z0-9_.()]*)\s+as\s+f64\s*\)\s*(<=|>=|<|>)\s*[0-9][0-9._]*_f64')


def f64_gates(text, ob, cb):
    """`(A as f64 / B as f64) < 0.75_f64` -> `verif_f64_gate(A, B)`: Verus has no usize -> f64 cast.  The operands are still
    evaluated; the outcome of the floating-point comparison becomes an unspecified boolean (the unit's prelude declares
    verif_f64_gate as an external_body function without a postcondition), so both branches are verified."""
    body = text[ob:cb + 1]
    new = F64_GATE_RE.sub(lambda m: 'verif_f64_gate(%s, %s)' % (m.group(1), m.group(2)), body)
    return text[:ob] + new + text[cb + 1:], cb + len(new) - len(body)


FOR_RANGE_RE = re.compile(r'\bfor\s+([A-Za-z_][A-Za-z0-9_]*)\s+in\s+([A-Za-z0-9_]+|\([^(){};]*\))\s*\.\.\s*([A-Za-z0-9_]+|\([^(){};]*\))\s*\{')


def for_range_while(text, ob, cb):
    """`for P in A..B { BODY }` -> `{ let mut __k: usize = A; let __n: usize = B; while __k < __n { let P = __k; __k += 1; BODY } }`
    (a half-open usize range evaluates its bounds once and yields A, A+1, .., B-1; `__k += 1` cannot overflow below `__n`).
    Verus supports `continue` in `while` loops but not in `for` loops."""
    while True:
        src = Src(text)
        hit = None
        for mt in FOR_RANGE_RE.finditer(text, ob, cb):
            if src.mask[mt.start()]:
                hit = mt
                break
        if not hit:
            return text, cb
        lob = hit.end() - 1
        lcb = src.match_close(lob)
        head = '{ let mut __k: usize = %s; let __n: usize = %s; while __k < __n { let %s = __k; __k += 1;' % (hit.group(2), hit.group(3), hit.group(1))
        new = text[:hit.start()] + head + text[lob + 1:lcb + 1] + ' }' + text[lcb + 1:]
        cb += len(new) - len(text)
        text = new


ASSERT_EQ_RE = re.compile(r'\bassert_eq!\(\s*([^;]*?)\s*,\s*([^,;]*?)\s*\)\s*;')


def assert_eq_unreached(text, ob, cb):
    """`assert_eq!(A, B);` -> `if !(A == B) { vstd::pervasive::unreached::<()>(); }` (Verus has no exec assert_eq!).  `unreached` has
    the precondition `false`: Verus must PROVE that the panic branch is dead under the function's contract, so on every input
    the contract admits the two texts behave alike."""
    body = text[ob:cb + 1]
    new = ASSERT_EQ_RE.sub(lambda m: 'if !(%s == %s) { vstd::pervasive::unreached::<()>(); }' % (m.group(1), m.group(2)), body)
    return text[:ob] + new + text[cb + 1:], cb + len(new) - len(body)


STR_CONST_RE = re.compile(r'(?<![A-Za-z0-9_:.])([A-Z][A-Z0-9]*(?:_[A-Z0-9]+)+)\b(?!\s*[(!:])')


def str_consts(text, ob, cb):
    """`ExpectedType(PTR_TYPE_TEXT, ..)` -> `ExpectedType(verif_const_PTR_TYPE_TEXT(), ..)`: Verus cannot ingest module-level consts
    of type `&str`.  The unit's prelude declares `verif_const_X()` as an external_body function whose (compiled, unverified) body is the
    const itself and whose contract says nothing, so the verified text computes the same value and the proof holds for any text."""
    src = Src(text)
    body = text[ob:cb + 1]
    out, last = [], ob
    for m in STR_CONST_RE.finditer(text, ob, cb):
        if not src.mask[m.start()]:
            continue
        out.append(text[last:m.start()] + 'verif_const_%s()' % m.group(1))
        last = m.end()
    out.append(text[last:cb + 1])
    new = ''.join(out)
    return text[:ob] + new + text[cb + 1:], cb + len(new) - len(body)


def pre_rewrite(text, unit):
    """source-level desugarings applied to the bodies of the functions that ask for them (spec key `pre_rewrites`), before annotation"""
    for key, spec in unit.get('fns', {}).items():
        if not spec.get('pre_rewrites'):
            continue
        cont, name = split_key(key)
        src = Src(text)
        cands = []
        for mt in src.find_code(r'\bfn\s+%s\b' % re.escape(name)):
            ob = src.next_body_open(mt.start())
            if ob >= 0:
                cands.append((ob, src.match_close(ob)))
        if len(cands) != 1:
            raise AnchorLost('%s: fn `%s` found %d times (pre-rewrite)' % (unit['file'], name, len(cands)))
        ob_, cb_ = cands[0]
        unit.setdefault('_orig_body_sha', {})[key] = sha(text[ob_:cb_ + 1])  # the body as it is in /repo, before desugaring
        if 'for_each_loops' in spec['pre_rewrites']:
            text, cb_ = for_each_loops(text, ob_, cb_)
        if 'for_range_while' in spec['pre_rewrites']:
            text, cb_ = for_range_while(text, ob_, cb_)
        if 'assert_eq_unreached' in spec['pre_rewrites']:
            text, cb_ = assert_eq_unreached(text, ob_, cb_)
        if 'f64_gates' in spec['pre_rewrites']:
            text, cb_ = f64_gates(text, ob_, cb_)
        if 'str_consts' in spec['pre_rewrites']:
            text, cb_ = str_consts(text, ob_, cb_)
    return text


def annotate_file(text, unit, canary=False, disabled_rewrites=()):
    """returns (new_text, [FnInfo])"""
    text = pre_rewrite(text, unit)
    src = Src(text)
    edits = []  # (start, end, replacement, prio)
    infos = []
    wrap_regions = []  # (start, end)

    def add_edit(start, end, rep, prio=0):
        edits.append((start, end, rep, prio))

    # ---- type items to wrap
    for header in unit.get('wrap', []):
        items = find_items(src, header)
        if len(items) != 1:
            raise AnchorLost('%s: item `%s` found %d times' % (unit['file'], header, len(items)))
        s, hp, ob, cb = items[0]
        wrap_regions.append((s, cb + 1))
        # attributes for a wrapped item, e.g. `#[verifier::external_derive]` (derived impls Verus cannot ingest stay external)
        if header in unit.get('wrap_attrs', {}):
            add_edit(s, s, unit['wrap_attrs'][header] + '\n', prio=5)

    # ---- contracted functions grouped by container
    by_container = {}
    for key, spec in unit.get('fns', {}).items():
        cont, name = split_key(key)
        by_container.setdefault(cont, []).append((key, name, spec))

    for cont, lst in by_container.items():
        if cont == '':
            fns = find_fns(src, 0, len(text), 0)
            for key, name, spec in lst:
                cands = fns.get(name, [])
                if len(cands) != 1:
                    raise AnchorLost('%s: free fn `%s` found %d times' % (unit['file'], name, len(cands)))
                s, hp, ob, cb = cands[0]
                wrap_regions.append((s, cb + 1))
                infos.append(process_fn(src, unit, key, spec, s, hp, ob, cb, add_edit, canary, disabled_rewrites))
        else:
            impls = find_items(src, cont)
            if not impls:
                raise AnchorLost('%s: container `%s` not found' % (unit['file'], cont))
            done = set()
            for (s, hp, ob, cb) in impls:
                fns = find_fns(src, ob + 1, cb, 0)
                mine = [(key, name, spec) for (key, name, spec) in lst if name in fns and key not in done]
                if not mine:
                    continue
                wrap_regions.append((s, cb + 1))
                wanted = set()
                for key, name, spec in mine:
                    if len(fns[name]) != 1:
                        raise AnchorLost('%s: fn `%s` ambiguous in `%s`' % (unit['file'], name, cont))
                    fs, fhp, fob, fcb = fns[name][0]
                    infos.append(process_fn(src, unit, key, spec, fs, fhp, fob, fcb, add_edit, canary, disabled_rewrites))
                    wanted.add(name)
                    done.add(key)
                for name, occ in fns.items():
                    if name in wanted:
                        continue
                    for (fs, fhp, fob, fcb) in occ:
                        ls = text.rfind('\n', 0, fhp) + 1
                        indent = text[ls:fhp]
                        if indent.strip() == '':
                            add_edit(fhp, fhp, '#[verifier::external]\n' + indent)
                        else:
                            add_edit(fhp, fhp, '#[verifier::external] ')
            missing = [key for key, name, spec in lst if key not in done]
            if missing:
                raise AnchorLost('%s: functions not found: %s' % (unit['file'], ', '.join(missing)))

    # ---- wrap regions (merge overlaps / nesting)
    wrap_regions.sort()
    merged = []
    for s, e in wrap_regions:
        if merged and s < merged[-1][1]:
            merged[-1] = (merged[-1][0], max(e, merged[-1][1]))
        else:
            merged.append((s, e))
    for s, e in merged:
        add_edit(s, s, 'verus! {\n', prio=-1)
        add_edit(e, e, '\n} // verus!\n', prio=1)

    # ---- apply edits back to front
    edits.sort(key=lambda e: (e[0], e[3]))
    out = []
    pos = 0
    for (s, e, rep, prio) in edits:
        if s < pos:
            raise AnchorLost('%s: overlapping edits at %d' % (unit['file'], s))
        out.append(text[pos:s])
        out.append(rep)
        pos = e
    out.append(text[pos:])
    new = ''.join(out)

    # `use vstd::prelude::*;` after any leading inner attributes / inner doc comments
    hl = new.split('\n')
    k = 0
    while k < len(hl) and (hl[k].startswith('//!') or hl[k].startswith('#![') or hl[k].strip() == ''):
        k += 1
    hl[k:k] = ['#[allow(unused_imports)] use vstd::prelude::*;']
    new = '\n'.join(hl)
    prelude = unit.get('prelude', '')
    if prelude.strip():
        new += '\n// ---- verif prelude (unit %s) ----\nverus! {\n%s\n} // verus!\n' % (unit['name'], prelude)

    # ---- line map via markers
    lines = new.split('\n')
    starts = {}
    for ln, l in enumerate(lines, 1):
        for mt in re.finditer(r'/\*@fn:(.*?)\*/', l):
            starts[mt.group(1)] = ln
        for mt in re.finditer(r'/\*@c:(.*?)#(\w+)#(\d+)\*/', l):
            pass
    nsrc = Src(new)
    for info in infos:
        mk = '/*@fn:%s*/' % info.key
        p = new.find(mk)
        if p < 0:
            raise AnchorLost('marker lost for ' + info.key)
        ob = new.find('/*@body*/', p)
        obr = new.rfind('{', p, ob + 0) if False else None
        # body open brace is the char right before the /*@body*/ marker
        bo = ob - 1
        while new[bo] != '{':
            bo -= 1
        bc = nsrc.match_close(bo)
        info.line_lo = new.count('\n', 0, p) + 1
        info.line_hi = new.count('\n', 0, bc) + 1
        for mt in re.finditer(r'/\*@c:' + re.escape(info.key) + r'#(\w+)#(\d+)\*/', new):
            info.clause_lines[new.count('\n', 0, mt.start()) + 1] = (mt.group(1), int(mt.group(2)))
    return new, infos


MAP_COLLECT_RE = re.compile(
    r'let\s+(?P<name>[A-Za-z_][A-Za-z_0-9]*)\s*=\s*(?P<recv>[^;{}]*?)\s*\.iter\(\)\s*'
    r'(?:\.inspect\(\|\s*[A-Za-z_][A-Za-z_0-9]*\s*\|\s*trace!\((?P<tr>[^;]*?)\)\s*\)\s*)?'
    r'\.map\(\|\s*(?P<x>[A-Za-z_][A-Za-z_0-9]*)\s*\|\s*(?P<body>[^;{}|]*?)\)\s*'
    r'\.collect::<Vec<(?P<ty>[A-Za-z_][A-Za-z_0-9:]*)>>\(\)\s*;')


def map_collect_rewrite(src, key, ob, cb, add_edit, info):
    text = src.text
    for mt in MAP_COLLECT_RE.finditer(text, ob, cb):
        if not src.mask[mt.start()]:
            continue
        body = mt.group('body').strip()
        # the closure body must be one balanced expression
        if body.count('(') != body.count(')') or mt.group('recv').count('(') != mt.group('recv').count(')'):
            raise AnchorLost('%s: map/collect chain the rewrite does not cover' % key)
        rep = 'let %s = { let __src = %s; let mut __v: Vec<%s> = Vec::new(); for %s in __src.iter() { __v.push(%s); } __v };' % (
            mt.group('name'), ' '.join(mt.group('recv').split()), mt.group('ty'), mt.group('x'), body)
        add_edit(mt.start(), mt.end(), rep)
        info.rewrites_applied.append('map_collect: let %s (inspect/trace stage %s)' % (mt.group('name'), 'dropped' if mt.group('tr') else 'absent'))


def slice_match_rewrite(src, key, ob, cb, add_edit, info):
    """desugar every `match` in the body whose arms are fixed-length slice patterns of plain identifiers (plus `_`)"""
    text = src.text
    for mt in src.find_code(r'\bmatch\b', ob, cb):
        mob = src.next_body_open(mt.end(), cb)
        if mob < 0:
            continue
        mcb = src.match_close(mob)
        # split arms at depth 0
        arms = []
        i = mob + 1
        while True:
            while i < mcb and (text[i].isspace() or not src.mask[i]):
                i += 1
            if i >= mcb:
                break
            ar = text.find('=>', i, mcb)
            while ar >= 0 and not src.mask[ar]:
                ar = text.find('=>', ar + 2, mcb)
            if ar < 0:
                raise AnchorLost('%s: match arm without =>' % key)
            pat = text[i:ar].strip()
            j = ar + 2
            while text[j].isspace():
                j += 1
            if text[j] == '{':
                e = src.match_close(j)
                body = text[j:e + 1]
                j = e + 1
                while j < mcb and text[j].isspace():
                    j += 1
                if text[j] == ',':
                    j += 1
            else:
                depth = 0
                k = j
                while k < mcb:
                    if src.mask[k]:
                        if text[k] in '([{':
                            depth += 1
                        elif text[k] in ')]}':
                            depth -= 1
                        elif text[k] == ',' and depth == 0:
                            break
                    k += 1
                body = '{ ' + text[j:k].strip() + ' }'
                j = k + 1
            arms.append((pat, body))
            i = j
        if not any(p.startswith('[') for p, b in arms):
            continue
        conds = []
        for n, (pat, body) in enumerate(arms):
            m2 = re.fullmatch(r'\[\s*([A-Za-z_][A-Za-z_0-9]*(?:\s*,\s*[A-Za-z_][A-Za-z_0-9]*)*)\s*,?\s*\]', pat)
            if m2:
                names = [x.strip() for x in m2.group(1).split(',')]
                lets = ' '.join('let %s = &__s[%d];' % (nm, ix) for ix, nm in enumerate(names))
                conds.append('if __s.len() == %d { %s %s }' % (len(names), lets, body))
            elif pat == '_' and n == len(arms) - 1:
                conds.append(body)
            else:
                raise AnchorLost('%s: slice-pattern match with an arm the desugaring does not cover: `%s`' % (key, pat))
        if not (arms[-1][0] == '_'):
            raise AnchorLost('%s: slice-pattern match without a final `_` arm' % key)
        add_edit(mob + 1, mcb, ' __s => ' + ' else '.join(conds) + ' ')
        info.rewrites_applied.append('slice_match: %d arms at +%d' % (len(arms), mt.start() - ob))


def obligation_text(info, key, asserts, default_props):
    """a proof block of asserts, one per line, each registered as a clause (kind `obligation`) with its own property tags"""
    out = ['\nproof {']
    for (props, expr) in asserts:
        idx = len([c for c in info.clauses if c[0] == 'obligation'])
        expr = ' '.join(expr.split())
        info.clauses.append(('obligation', idx, props if props is not None else default_props, 'assert(%s)' % expr))
        out.append('assert(%s); /*@c:%s#obligation#%d*/' % (expr, key, idx))
    out.append('}\n')
    return '\n'.join(out)


def process_fn(src, unit, key, spec, s, hp, ob, cb, add_edit, canary, disabled_rewrites):
    text = src.text
    info = FnInfo(unit['name'], key, spec)
    default_props = info.props
    for pr in spec.get('pre_rewrites', []):
        info.rewrites_applied.append('pre-rewrite %s (source-level desugaring before annotation; tool/annotate.py)' % pr)
    sig = text[hp:ob]
    body = text[ob:cb + 1]
    info.body_sha_repo = unit.get('_orig_body_sha', {}).get(key) or sha(body)

    # attributes + marker, placed right before the `fn`/`pub fn` keyword
    ls = text.rfind('\n', 0, hp) + 1
    indent = text[ls:hp] if text[ls:hp].strip() == '' else ''
    attrs = spec.get('attrs', '')
    # loops see the facts established before them (robust against harmless edits such as binding a loop bound to a local first)
    if not info.trusted and 'loop_isolation' not in attrs and spec.get('loop_isolation', False) is False and find_loops(src, ob, cb):
        attrs += '\n#[verifier::loop_isolation(false)]'
    if info.trusted:
        attrs += '#[verifier::external_body]\n'
    pre = '/*@fn:%s*/\n%s' % (key, indent)
    for a in [a for a in attrs.split('\n') if a.strip()]:
        pre += a.strip() + '\n' + indent
    add_edit(hp, hp, pre)

    # return value naming: last `->` at paren/bracket depth 0 in the signature
    depth = 0
    arrow = -1
    i = hp
    while i < ob:
        if src.mask[i]:
            ch = text[i]
            if ch in '([':
                depth += 1
            elif ch in ')]':
                depth -= 1
            elif ch == '-' and text[i + 1] == '>' and depth == 0:
                arrow = i
        i += 1
    ret = spec.get('ret', 'r')
    if arrow >= 0:
        # return type runs to `where` or the body brace
        mt = re.search(r'\bwhere\b', text[arrow:ob])
        tend = arrow + mt.start() if mt else ob
        rtype = text[arrow + 2:tend].strip()
        add_edit(arrow, tend, '-> (%s: %s) ' % (ret, rtype))

    # contract clauses, one per line with markers
    parts = []
    for kind in ('requires', 'ensures'):
        cl = clause_list(spec.get(kind))
        if not cl:
            continue
        parts.append('\n' + indent + '    ' + kind)
        for idx, (props, ctext) in enumerate(cl):
            ctext = ctext.strip().rstrip(',')
            info.clauses.append((kind, idx, props if props is not None else default_props, ctext))
            parts.append('\n%s        %s, /*@c:%s#%s#%d*/' % (indent, ' '.join(ctext.split('\n')), key, kind, idx))
    if spec.get('decreases'):
        parts.append('\n%s    decreases %s,' % (indent, spec['decreases']))
    if spec.get('raw_spec'):
        parts.append('\n' + spec['raw_spec'])
    if parts:
        parts.append('\n' + indent)
    add_edit(ob, ob, ''.join(parts), prio=1)

    # body start: marker + optional ghost text (+ canary)
    bs = '/*@body*/'
    if canary and not info.trusted:
        bs += ' proof { assert(false); } '
    if spec.get('body_start'):
        bs += '\n' + spec['body_start'] + '\n'
    add_edit(ob + 1, ob + 1, bs, prio=2)

    # ghost text before the closing brace (unit functions only: the body must not end in a tail expression value)
    if spec.get('body_end'):
        add_edit(cb, cb, '\n' + spec['body_end'] + '\n', prio=-2)

    # loops
    loops = spec.get('loops', {})
    if loops or spec.get('loop_obligations'):
        found = find_loops(src, ob, cb)
        heads = spec.get('loop_heads')
        if heads:
            # loops addressed by the beginning of their header text (e.g. 'while', 'for sp in') instead of their bare position: loop n of the
            # contract is the first not yet taken loop whose header starts that way; one that is not there is treated as a missing loop
            taken, mapped = set(), {}
            for n in sorted(heads):
                for j, (kwp_, lob_) in enumerate(found):
                    if j not in taken and ' '.join(text[kwp_:lob_].split()).startswith(heads[n]):
                        taken.add(j)
                        mapped[n] = found[j]
                        break
            nmax = max(list(heads) + [-1]) + 1
            missing = [n for n in range(nmax) if n not in mapped]
            found = [mapped.get(n) for n in range(nmax)]
            if missing or len(taken) != len(find_loops(src, ob, cb)):
                info.degraded.append('%s: loops by header: %d of %d found, %d other loop(s)' % (key, len(mapped), nmax, len(find_loops(src, ob, cb)) - len(taken)))
            # entries of loops that are not there are skipped below
            loops = dict((k, v) for k, v in loops.items() if k in mapped)
            found = [f if f is not None else (0, 0) for f in found]
        for ordinal, inv in loops.items():
            if ordinal >= len(found):
                # a loop is gone: the remaining ones keep their invariants by ordinal and the function is verified as it is, but a
                # failure is trusted only together with a concrete failing input (same rule as for extra loops / lost hint anchors)
                info.degraded.append('%s: loop #%d not found (have %d)' % (key, ordinal, len(found)))
                continue
            kwp, lob = found[ordinal]
            add_edit(lob, lob, '\n' + inv.strip() + '\n' + indent + '    ', prio=1)
        # obligations stated inside a loop body (part of the contract, unlike hints: never dropped when anchors are lost)
        for ordinal, asserts in spec.get('loop_obligations', {}).items():
            if ordinal >= len(found) or (heads and ordinal not in mapped):
                continue
            kwp, lob = found[ordinal]
            add_edit(lob + 1, lob + 1, obligation_text(info, key, asserts, default_props), prio=4)
        # name the ghost iterator of a `for` loop (`for x in e` -> `for x in iter: e`): Verus-only annotation, erased
        for ordinal, gname in spec.get('loop_iter', {}).items():
            if ordinal >= len(found) or (heads and ordinal not in mapped):
                continue
            kwp, lob = found[ordinal]
            mt = re.search(r'\bin\b\s+', text[kwp:lob])
            if not text[kwp:].startswith('for') or not mt:
                raise AnchorLost('%s: loop #%d is not a for loop' % (key, ordinal))
            add_edit(kwp + mt.end(), kwp + mt.end(), gname + ': ', prio=1)
        if not heads and spec.get('loop_count') is not None and spec['loop_count'] != len(found):
            # fewer or extra loops: the invariants may sit on the wrong loops and the new loop has none.  The function is verified as it
            # is, but a failure is trusted only together with a concrete failing input (same rule as for lost hint anchors)
            info.degraded.append('%s: expected %d loops, found %d' % (key, spec['loop_count'], len(found)))

    # obligations stated at a program point (part of the contract, unlike hints): the anchor must be there
    for ob_ in spec.get('obligations', []):
        alts = ob_['anchor'] if isinstance(ob_['anchor'], list) else [ob_['anchor']]
        pos = None
        for a in alts:
            occ = [ob + m.start() for m in re.finditer(re.escape(a), text[ob:cb + 1]) if src.mask[ob + m.start()]]
            if len(occ) == 1:
                pos = occ[0] if ob_.get('where', 'before') == 'before' else occ[0] + len(a)
                break
        if pos is None:
            raise AnchorLost('%s: the program point of an obligation (`%s`) is not there' % (key, alts[0]))
        add_edit(pos, pos, obligation_text(info, key, ob_['asserts'], default_props), prio=4)

    # ghost inserts at textual anchors.  If any anchor of the function is lost, none of its hint inserts is applied
    # (a hint placed next to changed code may not even compile); the function is then verified without hints.
    def anchor_lost(ins):
        if 'loop_end' in ins or 'loop_start' in ins:
            return None
        # `anchor` may be a list of alternative texts: the first one that is found (uniquely) is used
        alts = ins['anchor'] if isinstance(ins['anchor'], list) else [ins['anchor']]
        why = None
        for a in alts:
            occ = [m.start() for m in re.finditer(re.escape(a), text[ob:cb + 1])]
            occ = [o for o in occ if src.mask[ob + o]]
            if ins.get('unique', True) and 'nth' not in ins and len(occ) != 1:
                why = why or '%s: anchor `%s` found %d times' % (key, a, len(occ))
            elif ins.get('nth', 0) >= len(occ):
                why = why or '%s: anchor `%s` #%d not found' % (key, a, ins.get('nth', 0))
            else:
                ins['_anchor'] = a
                return None
        return why
    losses = [l for l in (anchor_lost(i) for i in spec.get('inserts', [])) if l]
    nloops = len(find_loops(src, ob, cb))
    losses += ['%s: loop #%d not found (have %d)' % (key, i.get('loop_end', i.get('loop_start')), nloops)
               for i in spec.get('inserts', []) if ('loop_end' in i or 'loop_start' in i) and i.get('loop_end', i.get('loop_start')) >= nloops]
    info.degraded.extend(losses)
    for ins in ([] if losses else spec.get('inserts', [])):
        if 'loop_end' in ins or 'loop_start' in ins:
            found = find_loops(src, ob, cb)
            n = ins.get('loop_end', ins.get('loop_start'))
            if n >= len(found):
                raise AnchorLost('%s: loop #%d not found (have %d)' % (key, n, len(found)))
            lob = found[n][1]
            if 'loop_end' in ins:
                lcb = src.match_close(lob)
                add_edit(lcb, lcb, ' ' + ins['text'] + '\n', prio=-3)
            else:
                add_edit(lob + 1, lob + 1, ' ' + ins['text'] + ' ', prio=3)
            continue
        anchor = ins.get('_anchor') or (ins['anchor'] if not isinstance(ins['anchor'], list) else ins['anchor'][0])
        occ = [m.start() for m in re.finditer(re.escape(anchor), text[ob:cb + 1])]
        occ = [ob + o for o in occ if src.mask[ob + o]]
        nth = ins.get('nth', 0)
        lost = None
        if ins.get('unique', True) and 'nth' not in ins and len(occ) != 1:
            lost = '%s: anchor `%s` found %d times' % (key, anchor, len(occ))
        elif nth >= len(occ):
            lost = '%s: anchor `%s` #%d not found' % (key, anchor, nth)
        if lost:
            # a proof hint whose anchor is gone is skipped: if the function still verifies, fine; if it does not,
            # the runner reports the function as undecided (never as a violation)
            info.degraded.append(lost)
            continue
        p = occ[nth]
        if ins.get('where', 'before') == 'before':
            add_edit(p, p, ins['text'] + ' ', prio=3)
        else:
            add_edit(p + len(anchor), p + len(anchor), ' ' + ins['text'], prio=3)

    # executable rewrites inside the body only
    rw = [r for r in unit.get('rewrites', ['drop_trace', 'f64_nan', 'f64_max', 'unwrap_or_else_len', 'slice_match', 'map_collect']) if r not in disabled_rewrites]
    new_body = body
    mc_ranges = [(m.start(), m.end()) for m in MAP_COLLECT_RE.finditer(text, ob, cb)] if 'map_collect' in rw else []
    if 'drop_trace' in rw:
        for mt in src.find_code(r'\btrace!\s*\(', ob, cb):
            if any(a <= mt.start() < b for a, b in mc_ranges):
                continue  # inside an inspect(..) stage that map_collect_rewrite replaces as a whole
            op = text.index('(', mt.start())
            cp = src.match_close(op)
            stmt_end = cp + 1
            if text[stmt_end:stmt_end + 1] == ';':
                stmt_end += 1
            dropped = text[mt.start():stmt_end]
            # the dropped text must be effect-free: no assignment, no `&mut`
            inner = text[op + 1:cp]
            if re.search(r'[^=!<>]=[^=]', inner) or '&mut' in inner:
                raise AnchorLost('%s: trace! argument is not obviously pure: %s' % (key, dropped))
            add_edit(mt.start(), stmt_end, '/*trace dropped*/')
            info.rewrites_applied.append('drop_trace: ' + ' '.join(dropped.split()))
            new_body = new_body.replace(dropped, '')
    for name in ('f64_nan', 'f64_max', 'unwrap_or_else_len'):
        if name in rw:
            rx, rep = REWRITES[name]
            for mt in src.find_code(rx, ob, cb):
                add_edit(mt.start(), mt.end(), mt.expand(rep))
                info.rewrites_applied.append('%s at +%d' % (name, mt.start() - ob))
            new_body = re.sub(rx, rep, new_body)
    if 'slice_match' in rw:
        slice_match_rewrite(src, key, ob, cb, add_edit, info)
    if 'map_collect' in rw:
        map_collect_rewrite(src, key, ob, cb, add_edit, info)
    for (rx, rep) in spec.get('rewrites', []):
        raise AnchorLost('per-function rewrites are not allowed')
    info.body_sha_verus = sha(new_body)
    return info


def annotate_lib_rs(text):
    return '#![feature(allocator_api)]\n#![allow(unused_imports)]\nuse vstd::prelude::*;\n' + text + VERIF_RT
