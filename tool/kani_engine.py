"""Kani back end: harness modules are appended (cfg(kani)) to the module under test in a scratch copy."""
import concurrent.futures
import os
import re
import subprocess
import time

import engine

VERIF = os.path.dirname(os.path.dirname(os.path.abspath(__file__)))
KANI_TARGET = os.path.join(VERIF, 'build', 'kani-target')


def prepare(files):
    d = engine.make_scratch('kani')
    for f in sorted(set(files)):
        src = os.path.join(VERIF, 'specs', 'kani', os.path.basename(f))
        dst = os.path.join(d, 'marwood', f)
        body = open(src).read()
        with open(dst, 'a') as fh:
            fh.write('\n#[cfg(kani)]\npub(crate) mod verif_kani {\n' + body + '\n}\n')
    return d


def run_one(d, h):
    cmd = ['cargo', 'kani', '--harness', h['harness'], '-Z', 'function-contracts', '-Z', 'stubbing'] + h.get('args', [])
    env = dict(os.environ, CARGO_NET_OFFLINE='true', CARGO_TARGET_DIR=KANI_TARGET)
    env.pop('RUSTUP_TOOLCHAIN', None)
    t0 = time.time()
    import signal
    proc = subprocess.Popen(cmd, cwd=os.path.join(d, 'marwood'), env=env, stdout=subprocess.PIPE, stderr=subprocess.STDOUT, text=True,
                            start_new_session=True)
    try:
        out, _ = proc.communicate(timeout=h.get('timeout', 300))
        rc = proc.returncode
    except subprocess.TimeoutExpired:
        try:
            os.killpg(proc.pid, signal.SIGKILL)
        except ProcessLookupError:
            pass
        out, _ = proc.communicate()
        rc = 124
    wall = time.time() - t0
    if 'VERIFICATION:- SUCCESSFUL' in out:
        status = 'ok'
    elif 'VERIFICATION:- FAILED' in out:
        status = 'failed'
    elif rc == 124 or rc == 137:
        status = 'timeout'
    else:
        status = 'error'
    failed_checks = re.findall(r'Failed Checks: (.*)', out)
    return {'harness': h['harness'], 'status': status, 'wall': wall, 'cmd': ' '.join(cmd), 'failed_checks': failed_checks[:6], 'tail': out[-2500:]}


def run(prop, harnesses, tier, seed, ev):
    hs = [h for h in harnesses if tier == 'thorough' or h.get('tier', 'quick') == 'quick']
    if not hs:
        return []
    d = prepare([h['file'] for h in hs] + sum((h.get('also_files', []) for h in hs), []))
    violations = []
    try:
        # first harness alone (builds the crate once), the rest in parallel
        results = [run_one(d, hs[0])]
        with concurrent.futures.ThreadPoolExecutor(max_workers=int(os.environ.get('VERIF_KANI_JOBS', '4'))) as ex:
            results += list(ex.map(lambda h: run_one(d, h), hs[1:]))
    finally:
        engine.rm_scratch(d)
    for h, r in zip(hs, results):
        if r['status'] in ('timeout', 'error'):
            raise engine.Undecided('kani harness %s: %s\n%s' % (h['harness'], r['status'], r['tail'][-1500:]))
        ok = r['status'] == 'ok'
        ev.add_kani(h['harness'], h.get('kind', 'bounded'), ok, h.get('bound', ''), r['wall'], r['cmd'], h.get('what'))
        if not ok:
            violations.append({'fn': 'kani harness ' + h['harness'], 'file': h['file'], 'clause': None,
                               'clause_text': h.get('what', h['harness']), 'message': 'Kani: VERIFICATION FAILED: ' + '; '.join(r['failed_checks']),
                               'rendered': r['tail'], 'backend': 'kani/cbmc', 'input': h.get('witness')})
    return violations
