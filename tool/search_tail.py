"""Failing-input search for C04: a loop of n tail calls must leave the same number of frames on the control stack for every n.

Observation without a hook: the loop ends by raising an error ((car '()) in tail position of the last iteration); the recorded stack
trace lists one frame per saved instruction pointer on the stack, so its length is the control-stack depth at that moment.
A session is a failing input when the depth after 300 iterations differs from the depth after 30.
"""
import re
import replay

# name -> definitions; every `loop` below calls itself (or its partners) only in R7RS tail positions
CONTEXTS = [
    ('if-alternate', "(define (loop n) (if (= n 0) (car '()) (loop (- n 1))))"),
    ('if-consequent', "(define (loop n) (if (> n 0) (loop (- n 1)) (car '())))"),
    ('one-armed-if', "(define (loop n) (if (= n 0) (car '())) (if (> n 0) (loop (- n 1))))"),
    ('cond', "(define (loop n) (cond ((= n 0) (car '())) (else (loop (- n 1)))))"),
    ('cond-first', "(define (loop n) (cond ((> n 0) (loop (- n 1))) (else (car '()))))"),
    ('and', "(define (loop n) (and #t (if (= n 0) (car '()) (loop (- n 1)))))"),
    ('or', "(define (loop n) (or #f (if (= n 0) (car '()) (loop (- n 1)))))"),
    ('when', "(define (loop n) (if (= n 0) (car '()) #f) (when (> n 0) (loop (- n 1))))"),
    ('unless', "(define (loop n) (if (= n 0) (car '()) #f) (unless (= n 0) (loop (- n 1))))"),
    ('let', "(define (loop n) (let ((m (- n 1))) (if (= n 0) (car '()) (loop m))))"),
    ('let*', "(define (loop n) (let* ((m (- n 1)) (k m)) (if (= n 0) (car '()) (loop k))))"),
    ('letrec', "(define (loop n) (letrec ((m (- n 1))) (if (= n 0) (car '()) (loop m))))"),
    ('begin', "(define (loop n) (begin 1 (if (= n 0) (car '()) (loop (- n 1)))))"),
    ('case', "(define (loop n) (case n ((0) (car '())) (else (loop (- n 1)))))"),
    ('last-body', "(define (loop n) (if (= n 0) (car '()) #f) (loop (- n 1)))"),
    ('lambda-body', "(define loop (lambda (n) (if (= n 0) (car '()) (loop (- n 1)))))"),
    ('nested-if', "(define (loop n) (if (> n 0) (if (odd? n) (loop (- n 1)) (loop (- n 1))) (car '())))"),
    ('mutual-2', "(define (loop n) (if (= n 0) (car '()) (pong (- n 1))));;(define (pong n) (if (= n 0) (car '()) (loop (- n 1))))"),
    ('mutual-3', "(define (loop n) (if (= n 0) (car '()) (b (- n 1) 1)));;(define (b n x) (if (= n 0) (car '()) (c (- n 1) x 2)));;(define (c n x y) (if (= n 0) (car '()) (loop (- n 1))))"),
    ('argc-differs', "(define (loop n) (if (= n 0) (car '()) (two (- n 1) n)));;(define (two n m) (if (= n 0) (car '()) (loop (- n 1))))"),
    ('variadic', "(define (loop n . rest) (if (= n 0) (car '()) (loop (- n 1) n n)))"),
    ('variadic-0', "(define (loop . args) (if (= (car args) 0) (car '()) (loop (- (car args) 1))))"),
    ('named-let', "(define (loop n) (let lp ((i n)) (if (= i 0) (car '()) (lp (- i 1)))))"),
    ('eval', "(define (loop n) (if (= n 0) (car '()) (eval (list 'loop (- n 1)))))"),
    ('call/cc', "(define (loop n) (if (= n 0) (car '()) (call/cc (lambda (k) (loop (- n 1))))))"),
    ('apply-variadic', "(define (loop . a) (if (= (car a) 0) (car '()) (apply loop (- (car a) 1) '(1 2))))"),
    ('or-last', "(define (loop n) (or (if (= n 0) (car '()) #f) (loop (- n 1))))"),
    ('and-last', "(define (loop n) (and (if (= n 0) (car '()) #t) (loop (- n 1))))"),
    ('apply', "(define (loop n) (if (= n 0) (car '()) (apply loop (list (- n 1)))))"),

]


def frames(o):
    m = re.search(r'trace-frames=Some\((\d+)\)', o)
    return int(m.group(1)) if m else None


def slots(o):
    m = re.search(r'stack-slots=Some\((\d+)\)', o)
    return int(m.group(1)) if m else None


# slot leaks (no extra frame, but cells left below the rebuilt frame) only show in the size the stack vector had to grow to:
# the same loops with 3000 iterations must not need more than the initial 256 slots
LEAK_CONTEXTS = [
    ('variadic-no-args', "(define k 0);;(define (loop . args) (set! k (+ k 1)) (if (> k 3000) (car '()) (loop)))", "(loop)"),
    ('argc-grows', "(define (loop n) (if (= n 0) (car '()) (two (- n 1) n)));;(define (two n m) (if (= n 0) (car '()) (loop (- n 1))))", "(loop 3000)"),
    ('argc-grows-3', "(define (loop n) (if (= n 0) (car '()) (three (- n 1) n n)));;(define (three n a b) (if (= n 0) (car '()) (loop (- n 1))))", "(loop 3000)"),
    ('variadic-extra', "(define (loop n . rest) (if (= n 0) (car '()) (loop (- n 1) n n)))", "(loop 3000)"),
    ('apply-spread', "(define (loop n) (if (= n 0) (car '()) (apply loop (list (- n 1)))))", "(loop 3000)"),
    ('plain', "(define (loop n) (if (= n 0) (car '()) (loop (- n 1))))", "(loop 3000)"),
]


def search(prop, violations):
    sess = []
    for name, defs in CONTEXTS:
        sess.append(defs + ";;#trace (loop 30)")
        sess.append(defs + ";;#trace (loop 300)")
    outs = replay.run_sessions(sess)
    for k, (name, defs) in enumerate(CONTEXTS):
        a, b = outs[2 * k], outs[2 * k + 1]
        fa, fb = frames(a), frames(b)
        if fa is None or fb is None:
            continue  # the context is not supported by this build (e.g. an unknown form): not evidence of anything
        if fa != fb:
            return {'session': sess[2 * k + 1], 'observed': b, 'demanded': 'the same control-stack depth as ' + a + ' (30 iterations of the same loop)',
                    'kind': 'control stack grows with the number of tail calls (%s)' % name}
    lsess = [defs + ";;#trace " + call for (name, defs, call) in LEAK_CONTEXTS]
    louts = replay.run_sessions(lsess)
    for (name, defs, call), o in zip(LEAK_CONTEXTS, louts):
        n = slots(o)
        if n is not None and n > 256:
            return {'session': lsess[LEAK_CONTEXTS.index((name, defs, call))], 'observed': o, 'demanded': 'a stack vector that never had to grow beyond its initial 256 slots (3000 tail calls)',
                    'kind': 'stack slots leak with the number of tail calls (%s)' % name}
    return None


if __name__ == '__main__':
    import json
    sess = []
    for name, defs in CONTEXTS:
        sess.append(defs + ";;#trace (loop 30)")
        sess.append(defs + ";;#trace (loop 300)")
    outs = replay.run_sessions(sess)
    for k, (name, defs) in enumerate(CONTEXTS):
        print('%-14s %s | %s' % (name, outs[2 * k][-60:], outs[2 * k + 1][-60:]))
    print(json.dumps(search('C04', [])))
