import re,sys
s=open(sys.argv[1] if len(sys.argv)>1 else '/tmp/out.txt').read()
print(s[:1500] if 'FATAL' in s or 'ANCHOR' in s else s.split('\n')[1])
blocks=s.split('--- ')
for b in blocks[1:]:
    lines=b.split('\n')
    head=lines[0]
    msg=lines[1] if len(lines)>1 else ''
    code=[l for l in lines if re.match(r'^ *\d+ \| ',l)]
    if head.startswith('failed'): continue
    print(head,'|',msg,'|',code[0].strip()[:150] if code else '')
