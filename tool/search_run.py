"""Failing-input search for C13: sliced evaluation with small constant budgets against uninterrupted evaluation."""
import replay

PROGRAMS = [
    '(+ 1 2)',
    '(define (f n) (if (= n 0) 0 (+ 1 (f (- n 1)))));;(f 20)',
    '(define (loop i acc) (if (= i 0) acc (loop (- i 1) (cons i acc))));;(loop 30 (quote ()))',
    '(car 1)',
    '(define k #f);;(+ 1 (call/cc (lambda (c) (set! k c) 1)));;(vector-ref (vector 1 2 3) 1)',
    '(let loop ((i 0)) (if (< i 50) (loop (+ i 1)) i))',
    '(map (lambda (x) (* x x)) (quote (1 2 3 4)))',
    '(undefined-variable)',
]


def sliced(p, b):
    return ';;'.join('#slices %d 200000: %s' % (b, f) for f in p.split(';;'))


def search(prop, violations):
    budgets = [1, 2, 3, 5, 7, 64]
    sessions = list(PROGRAMS)
    for p in PROGRAMS:
        for b in budgets:
            sessions.append(sliced(p, b))
    outs = replay.run_sessions(sessions)
    base = dict(zip(PROGRAMS, outs[:len(PROGRAMS)]))
    i = len(PROGRAMS)
    for p in PROGRAMS:
        for b in budgets:
            if outs[i] != base[p]:
                return {'session': sessions[i], 'observed': outs[i], 'demanded': base[p] + ' (the uninterrupted result)', 'kind': 'sliced evaluation differs from uninterrupted evaluation'}
            i += 1
    return None
