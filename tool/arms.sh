#!/bin/bash
# bisect a 16-arm Number x Number function: assume one arm at a time. usage: arms.sh <fn-marker e.g. "impl Mul for &Number::mul"> 
rm -rf /var/tmp/mw-edit; cp -r /var/tmp/mw-last /var/tmp/mw-edit
for a in Fixnum BigInt Float Rational; do for b in Fixnum BigInt Float Rational; do
  cp /var/tmp/mw-last/number.rs /var/tmp/mw-edit/number.rs
  python3 - "$1" $a $b <<'PY'
import sys
key,a,b=sys.argv[1:4]
p='/var/tmp/mw-edit/number.rs'
s=open(p).read()
i=s.index('/*@fn:%s*/'%key)
j=s.index('/*@body*/',i)
s=s[:j]+'/*@body*/ proof { assume(self is %s && rhs is %s); } '%(a,b)+s[j+9:]
open(p,'w').write(s)
PY
  r=$(/verif/tool/manual.sh --noreset --verify-only-module number --verify-function "*${1##*::}" 2>&1 | grep "verification results")
  echo "$a x $b: $r"
done; done
