"""Failing-input search for C14: list and vector procedures -- values, errors, and identity (aliasing) -- against expectations
written from R7RS by hand.  `ERR` means: any error is demanded (the property asks for "an error, not a wrong answer").
"""
import replay

D = "(define p (list 1 2));;(define q (list 3 4));;(define v (vector p q 5));;"
SESSIONS = [
    # ---- identity: what goes into a container is the very object that comes out
    ('vector-ref-identity', D + "(set-car! (vector-ref v 0) 9);;p", "(9 2)"),
    ('vector-set-identity', D + "(vector-set! v 2 p);;(set-car! p 7);;(vector-ref v 2)", "(7 2)"),
    ('vector-fill-identity', D + "(define w (make-vector 3 0));;(vector-fill! w p);;(set-car! p 8);;w", "#((8 2) (8 2) (8 2))"),
    ('make-vector-identity', D + "(define w (make-vector 2 p));;(set-car! (vector-ref w 0) 6);;(list p (vector-ref w 1))", "((6 2) (6 2))"),
    ('vector-identity', D + "(set-car! p 5);;(vector-ref v 0)", "(5 2)"),
    ('vector->list-identity', D + "(define l (vector->list v));;(set-car! (car l) 4);;p", "(4 2)"),
    ('vector->list-fresh', D + "(define l (vector->list v));;(set-car! l 0);;(vector-ref v 0)", "(1 2)"),
    ('list->vector-identity', D + "(define w (list->vector (list p q)));;(set-car! (vector-ref w 1) 0);;q", "(0 4)"),
    ('vector-copy-identity', D + "(define w (vector-copy v 1));;(set-car! (vector-ref w 0) 0);;q", "(0 4)"),
    ('vector-copy!-identity', D + "(define w (make-vector 3 0));;(vector-copy! w 1 v 0 2);;(set-car! (vector-ref w 1) 0);;(list w p)", "(#(0 (0 2) (3 4)) (0 2))"),
    ('cons-identity', D + "(define c (cons p q));;(set-car! p 0);;(car c)", "(0 2)"),
    ('list-tail-identity', D + "(define l (list 1 2 3));;(set-car! (list-tail l 1) 9);;l", "(1 9 3)"),
    ('append-shares-last', D + "(define r (append (list 0) p));;(set-car! p 9);;r", "(0 9 2)"),
    ('append-copies-first', D + "(define r (append p q));;(set-car! r 0);;p", "(1 2)"),
    ('append-one', D + "(define r (append p));;(set-car! r 0);;p", "(0 2)"),
    ('append-nil-last-fresh', "(define x (list 1 2 3));;(define r (append x '()));;(set-car! r 99);;x", "(1 2 3)"),
    ('append-nondestructive', "(define x (list 1 2 3));;(define y (list 4 5));;(append x y);;(list x (length x))", "((1 2 3) 3)"),
    ('append-shares-last-2', "(define x (list 1 2 3));;(define y (list 4 5));;(define r (append x y));;(set-car! y 9);;(set-car! x 0);;r", "(1 2 3 9 5)"),
    ('append-after-growth', "(define (build n acc) (if (= n 0) acc (build (- n 1) (cons n acc))));;(define big (build 20000 '()));;(list (append (list 1 2 3) '(4 5)) (vector->list (list->vector (list 7 8))) (length big))", "((1 2 3 4 5) (7 8) 20000)"),
    ('append-three', "(define y (list 7));;(define r (append (list 1 2) (list 3) '() (list 4 5) y));;(set-car! y 8);;r", "(1 2 3 4 5 8)"),
    ('reverse-fresh-1', "(define l (list 1));;(define r (reverse l));;(set-car! r 9);;l", "(1)"),
    ('reverse-fresh-3', "(define l (list 1 2 3));;(define r (reverse l));;(set-cdr! r '());;(list l r)", "((1 2 3) (3))"),
    ('reverse-identity', D + "(define r (reverse (list p q)));;(set-car! (car r) 0);;q", "(0 4)"),
    # ---- values
    ('reverse-values', "(list (reverse '()) (reverse '(1)) (reverse '(1 2 3 4)))", "(() (1) (4 3 2 1))"),
    ('vector->list-values', "(list (vector->list (vector)) (vector->list (vector 1)) (vector->list (vector 1 2 3)))", "(() (1) (1 2 3))"),
    ('make-vector-values', "(list (make-vector 0 1) (make-vector 3 'a) (vector-length (make-vector 4)))", "(#() #(a a a) 4)"),
    ('vector-copy-values', "(list (vector-copy (vector 1 2 3)) (vector-copy (vector 1 2 3) 1) (vector-copy (vector 1 2 3) 3))", "(#(1 2 3) #(2 3) #())"),
    ('vector-copy!-values', "(define a (vector 1 2 3 4 5));;(define b (vector 10 20 30 40 50));;(vector-copy! b 1 a 0 2);;(vector-copy! b 3 a 3);;b", "#(10 1 2 4 5)"),
    ('list-ref-tail', "(list (list-ref '(a b c) 0) (list-ref '(a b c) 2) (list-tail '(a b c) 0) (list-tail '(a b c) 3))", "(a c (a b c) ())"),
    ('set-cdr', "(define l (list 1 2 3));;(set-cdr! (cdr l) '(9));;l", "(1 2 9)"),
    ('append-values', "(list (append) (append '() '()) (append '(1) '(2) '(3 4)) (append '(1) 2))", "(() () (1 2 3 4) (1 . 2))"),
    ('vector-copy!-empty', "(define a (vector 1 2));;(vector-copy! a 2 (vector));;(vector-copy! a 0 (vector 7 8) 2);;(vector-copy! a 1 (vector 7 8) 1 1);;a", "#(1 2)"),
    ('vector-copy!-overlap-up', "(define v (vector 1 2 3 4));;(vector-copy! v 1 v 0 3);;v", "#(1 1 2 3)"),
    ('vector-copy!-overlap-down', "(define v (vector 1 2 3 4));;(vector-copy! v 0 v 1 4);;v", "#(2 3 4 4)"),
    ('append-atoms', "(list (append '() 5) (append 5) (list-tail '() 0) (make-vector 0))", "(5 5 () #())"),
    # ---- errors, not wrong answers
    ('vector-ref-range', "(vector-ref (vector 1 2) 2)", "ERR"),
    ('vector-ref-neg', "(vector-ref (vector 1 2) -1)", "ERR"),
    ('vector-set-range', "(vector-set! (vector 1 2) 2 0)", "ERR"),
    ('vector-set-empty', "(vector-set! (vector) 0 0)", "ERR"),
    ('vector-copy-range', "(vector-copy (vector 1 2 3) 4)", "ERR"),
    ('vector-copy!-range', "(vector-copy! (vector 1 2) 1 (vector 1 2 3))", "ERR"),
    ('list-ref-range', "(list-ref '(a b) 2)", "ERR"),
    ('list-tail-range', "(list-tail '(a b) 3)", "ERR"),
    ('car-nil', "(car '())", "ERR"),
    ('reverse-improper', "(reverse '(1 2 . 3))", "ERR"),
    ('append-improper', "(append '(1 . 2) '(3))", "ERR"),
    ('list->vector-improper', "(list->vector '(1 . 2))", "ERR"),
]


def ok(o, want):
    return o.startswith('ERR') if want == 'ERR' else o == 'OK ' + want


def search(prop, violations):
    outs = replay.run_sessions([s for (_, s, _) in SESSIONS])
    for (name, s, want), o in zip(SESSIONS, outs):
        if not ok(o, want):
            return {'session': s, 'observed': o, 'demanded': ('an error' if want == 'ERR' else 'OK ' + want), 'kind': 'list / vector procedure (%s)' % name}
    return None


if __name__ == '__main__':
    outs = replay.run_sessions([s for (_, s, _) in SESSIONS])
    for (name, s, want), o in zip(SESSIONS, outs):
        print('%-24s %-5s %s   (want %s)' % (name, 'ok' if ok(o, want) else 'DIFF', o[:70], want))
