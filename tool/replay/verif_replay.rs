// Replay driver: evaluates Scheme sessions against the *unannotated* crate.
// stdin: one session per line; forms of a session separated by the two characters `;;` are
// evaluated in one Vm in order. For each session prints one line:
//   RESULT <idx> <outcome of last form>     outcome = OK <written value> | ERR <error text> | PANIC <message>
use marwood::vm::Vm;
use std::io::BufRead;
use std::panic;

fn eval_all(vm: &mut Vm, mut text: &str) -> String {
    let mut last = String::from("OK");
    loop {
        let t = text.trim_start();
        if t.is_empty() {
            return last;
        }
        match vm.eval_text(t) {
            Ok((cell, rest)) => {
                last = format!("OK {:#}", cell);
                match rest {
                    Some(r) => text = r,
                    None => return last,
                }
            }
            Err(e) => {
                return match panic::catch_unwind(panic::AssertUnwindSafe(|| format!("{}", e))) {
                    Ok(s) => format!("ERR {}", s),
                    Err(_) => "PANIC while rendering error".to_string(),
                }
            }
        }
    }
}

/// `#slices <budget> <max_calls>: <forms>`: every form is prepared and then resumed with a constant budget
fn eval_sliced(vm: &mut Vm, budget: usize, max_calls: usize, mut text: &str) -> String {
    let mut last = String::from("OK");
    loop {
        let t = text.trim_start();
        if t.is_empty() {
            return last;
        }
        let (cell, rest) = match marwood::parse::parse_text(t) {
            Ok(x) => x,
            Err(e) => return format!("ERR {}", e),
        };
        if let Err(e) = vm.prepare_eval(&cell) {
            return format!("ERR {}", e);
        }
        let mut calls = 0;
        loop {
            calls += 1;
            if calls > max_calls {
                return format!("NOT-COMPLETED after {} resumptions with budget {}", max_calls, budget);
            }
            match vm.run_count(budget) {
                Ok(Some(cell)) => {
                    last = format!("OK {:#}", cell);
                    break;
                }
                Ok(None) => continue,
                Err(e) => return format!("ERR {}", e),
            }
        }
        match rest {
            Some(r) => text = r,
            None => return last,
        }
    }
}

fn main() {
    panic::set_hook(Box::new(|_| {}));
    let stdin = std::io::stdin();
    // VERIF_REPLAY_SHARED=1: sessions are independent pure expressions; reuse one Vm (recreated after a panic)
    let shared = std::env::var("VERIF_REPLAY_SHARED").is_ok();
    let mut keep: Option<Vm> = None;
    for (idx, line) in stdin.lock().lines().enumerate() {
        let line = line.unwrap();
        let mut vm = match keep.take() {
            Some(vm) => vm,
            None => Vm::new(),
        };
        let r = panic::catch_unwind(panic::AssertUnwindSafe(|| {
            let mut out = String::new();
            for form in line.split(";;") {
                if let Some(rest) = form.trim_start().strip_prefix("#trace ") {
                    // evaluate and report the error together with the depth of the recorded stack trace
                    out = eval_all(&mut vm, rest);
                    let depth = vm.last_stacktrace().map(|t| t.frames.len());
                    // the length of the stack vector (it doubles when the stack pointer reaches its end and never shrinks), read off
                    // the Debug rendering of the machine: `stack: Stack { stack: [c0, c1, ...], sp: n }` (all cells are wiped after an error)
                    let dbg = format!("{:?}", vm);
                    let slots = dbg.find("stack: Stack { stack: [").map(|p| {
                        let rest = &dbg[p..];
                        let end = rest.find("], sp:").unwrap_or(rest.len());
                        rest[..end].matches("Undefined").count()
                    });
                    out = format!("{} [trace-frames={:?}] [stack-slots={:?}]", out, depth, slots);
                } else if let Some(rest) = form.trim_start().strip_prefix("#slices ") {
                    let (hdr, body) = rest.split_once(':').unwrap_or(("1 1000", rest));
                    let mut it = hdr.split_whitespace();
                    let budget: usize = it.next().and_then(|x| x.parse().ok()).unwrap_or(1);
                    let max_calls: usize = it.next().and_then(|x| x.parse().ok()).unwrap_or(1000);
                    out = eval_sliced(&mut vm, budget, max_calls, body);
                } else {
                    out = eval_all(&mut vm, form);
                }
            }
            out
        }));
        if shared && r.is_ok() {
            keep = Some(vm);
        }
        match r {
            Ok(s) => println!("RESULT {} {}", idx, s.replace('\n', "\\n")),
            Err(e) => {
                let msg = if let Some(s) = e.downcast_ref::<String>() { s.clone() } else if let Some(s) = e.downcast_ref::<&str>() { s.to_string() } else { "?".into() };
                println!("RESULT {} PANIC {}", idx, msg.replace('\n', "\\n"))
            }
        }
    }
}
