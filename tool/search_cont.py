"""Failing-input search for C05: re-entering continuations.

Every session below ends in a value that follows from the property text alone ("continues as if the original call/cc expression had
just returned v; operands already evaluated keep their values; mutations made since capture stay visible"), worked out by hand:

  deep      (deep n) = n + (value of the call/cc at the bottom).  k is captured at depth n; (k v) from a later top-level form
            re-runs the n pending additions: n + v.
  operand   (+ x (call/cc ..)) with x = 10 already evaluated: re-entering with 5 gives 15 each time; acc is a global, so its
            growth since capture stays visible: (15 15 11).
  collect   (list a (call/cc ..) b): the operand `a` evaluated before the capture keeps its value on re-entry.
  vector    k captured inside (vector 1 2 [] 4); (k 7) from a tail position rebuilds the vector with 7 in slot 2.
  generator re-entry after the receiver returned, three times, each delivering a different kind of value (pair, vector, procedure).
  mutation  (k 0) from a later form re-runs `(set! n (+ n 1))` once more (n was 1) and finishes the *captured* top-level form; the
            form that invoked k is abandoned, so n ends as 2.
  env       the continuation of a closure body keeps the closure's variables (tag, x) after garbage has been produced.
"""
import replay

SESSIONS = [
    ('deep', "(define k #f);;(define (deep n) (if (= n 0) (call/cc (lambda (c) (set! k c) 0)) (+ 1 (deep (- n 1)))));;(deep 10);;(k 5)", "15"),
    ('deep-later', "(define k #f);;(define (deep n) (if (= n 0) (call/cc (lambda (c) (set! k c) 0)) (+ 1 (deep (- n 1)))));;(deep 100);;(k 7);;(k 8);;(k 9)", "109"),
    ('deep-after-shallow', "(define k #f);;(define (deep n) (if (= n 0) (call/cc (lambda (c) (set! k c) 0)) (+ 1 (deep (- n 1)))));;(deep 300);;(+ 1 2);;(k 1)", "301"),
    ('operand', "(define k #f);;(define acc '());;(define (g x) (set! acc (cons (+ x (call/cc (lambda (c) (set! k c) 1))) acc)) (if (< (length acc) 3) (* 1000 (k 5))) acc);;(g 10)", "(15 15 11)"),
    ('collect', "(define k #f);;(define r '());;(define (collect a b) (set! r (cons (list a (call/cc (lambda (c) (set! k c) 'first)) b) r)) (if (< (length r) 3) (list 'x 'y (k (length r)))) r);;(collect 'left 'right)",
     "((left 2 right) (left 1 right) (left first right))"),
    ('vector-tail', "(define k #f);;(define (h) (vector 1 2 (call/cc (lambda (c) (set! k c) 3)) 4));;(define r (h));;(define (resume-tail-7) (k 7));;(resume-tail-7);;r", "#(1 2 7 4)"),
    ('vector-nontail', "(define k #f);;(define (h) (vector 1 2 (call/cc (lambda (c) (set! k c) 3)) 4));;(define r (h));;(define (resume) (car (list (k 9))));;(resume);;r", "#(1 2 9 4)"),
    ('pair-value', "(define k #f);;(define (f) (cons 'got (call/cc (lambda (c) (set! k c) 'first))));;(f);;(k '(1 2));;(k (vector 1 2))", "(got . #(1 2))"),
    ('procedure-value', "(define k #f);;(define (f) (let ((v (call/cc (lambda (c) (set! k c) car)))) (v '(a b))));;(f);;(k cdr)", "(b)"),
    ('env', "(define k #f);;(define (outer tag) (lambda (x) (list (call/cc (lambda (c) (set! k c) 0)) tag x)));;((outer 'a) 1);;(define (build n acc) (if (= n 0) acc (build (- n 1) (cons n acc))));;(define big (build 3000 '()));;(k 6)", "(6 a 1)"),
    ('mutation-visible', "(define k #f);;(define n 0);;(define (f) (call/cc (lambda (c) (set! k c) 0)) (set! n (+ n 1)) n);;(f);;(if (< n 4) (k 0) n);;n", "2"),
]


def search(prop, violations):
    outs = replay.run_sessions([s for (_, s, _) in SESSIONS])
    for (name, s, want), o in zip(SESSIONS, outs):
        if o != 'OK ' + want:
            return {'session': s, 'observed': o, 'demanded': 'OK ' + want, 'kind': 'continuation re-entry (%s)' % name}
    return None


if __name__ == '__main__':
    outs = replay.run_sessions([s for (_, s, _) in SESSIONS])
    for (name, s, want), o in zip(SESSIONS, outs):
        print('%-18s %-8s %s   (want %s)' % (name, 'ok' if o == 'OK ' + want else 'DIFF', o, want))
