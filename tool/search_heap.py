"""Failing-input search for C03 / C12 / C18: GC-forcing Scheme sessions against the real code (never decides)."""
import replay

CHURN = "(define (mk n acc) (if (= n 0) acc (mk (- n 1) (cons n acc))));;(define (churn k) (if (= k 0) 0 (begin (mk 3000 '()) (churn (- k 1)))))"

SESSIONS = [
    # (session, demanded outcome, what it shows)
    (CHURN + ";;(define keep 'persist-me);;(churn 20);;(eq? keep 'persist-me)", 'OK #t', 'a live symbol keeps its identity across collections'),
    (CHURN + ";;(symbol? (string->symbol \"short-lived-name\"));;(churn 20);;(let ((s (string->symbol \"short-lived-name\"))) (if (symbol? s) (eq? s 'short-lived-name) #f))", 'OK #t', 'a collected symbol can be produced again'),
    (CHURN + ";;(define a (string->symbol \"made-at-run-time\"));;(define b (string->symbol \"made-at-run-time\"));;(eq? a b)", 'OK #t', 'two productions of one name through string->symbol are eq?'),
    (CHURN + ";;(define (adder n) (lambda (x) (+ x n)));;(define add5 (adder 5));;(churn 20);;(add5 10)", 'OK 15', 'a closure environment survives collections'),
    (CHURN + ";;(define v (vector (vector 1 2) (list 3 4)));;(churn 20);;(vector-ref (vector-ref v 0) 1)", 'OK 2', 'nested vectors survive collections'),
    (CHURN + ";;(define k #f);;(define (f n) (let ((m (* n 2))) (+ m (call/cc (lambda (c) (set! k c) 1)))));;(f 10);;(churn 20);;(define once #t);;(let ((r (k 5))) r)", None, 'a stored continuation survives collections'),
    (CHURN + ";;(define k2 #f);;(define (g x) (define y (* x 2)) (+ (call/cc (lambda (c) (set! k2 c) 1)) y));;(g 10);;(churn 20);;(k2 5)", 'OK 25', 'the environment of the capturing frame (internal define) is reachable only through the saved %ep of a stored continuation and survives collections'),
    (CHURN + ";;(define lst (mk 50 '()));;(churn 20);;(length lst)", 'OK 50', 'a global list survives collections'),
    (CHURN + ";;(define (adder n) (lambda (x) (+ x n)));;(define v2 (vector (mk 5 '()) (adder 10) (vector (mk 3 '()))));;(churn 20);;(+ (length (vector-ref v2 0)) ((vector-ref v2 1) 1) (length (vector-ref (vector-ref v2 2) 0)))", 'OK 19', 'lists, closures and nested vectors held only by a vector survive collections'),
    (CHURN + ";;(define (adder n) (lambda (x) (+ x n)));;(define a1 (adder 1));;(define a2 (adder 1000));;(churn 20);;(+ (a1 1) (a2 1))", 'OK 1003', 'two closures of one lambda keep their own environments'),
    (CHURN + ";;(define (deep n) (if (= n 0) (churn 8) (+ 1 (deep (- n 1)))));;(deep 200)", 'OK 200', 'stack-held frames survive collections in the middle of a recursion'),
    (CHURN + ";;(define z (cons (cons 1 2) (cons 3 4)));;(churn 20);;(car (car z))", 'OK 1', 'pairs reachable from a global survive'),
]


def search(prop, violations):
    sess = [s for (s, _, _) in SESSIONS]
    # every session is also run sliced with budget 1 so that a collection can happen at every instruction boundary
    outs = replay.run_sessions(sess)
    for (s, want, what), o in zip(SESSIONS, outs):
        if o.startswith('PANIC') or o.startswith('NORESULT'):
            return {'session': s, 'observed': o, 'demanded': want or 'a value', 'kind': 'panic: ' + what}
        if want is not None and o != want:
            return {'session': s, 'observed': o, 'demanded': want, 'kind': what}
        if want is None and o.startswith('ERR'):
            return {'session': s, 'observed': o, 'demanded': 'a value', 'kind': what}
    return None
