"""Failing-input search for C08 / C09 (never decides; only looks for an input that shows a failed obligation on the real code)."""
from fractions import Fraction
import re

import replay

B = [0, 1, -1, 2, -2, 3, 7, 2**31 - 1, 2**31, 2**31 + 1, -2**31, -2**31 - 1, -2**31 + 1, 2**32, -2**32, 2**63 - 1, 2**63, -2**63, -2**63 - 1,
     2**64 + 3, -(2**64) - 3, 10**20]
R = [Fraction(1, 2), Fraction(-1, 2), Fraction(3, 2), Fraction(-7, 3), Fraction(2**31 - 1, 2), Fraction(1, 2**31 - 1), Fraction(-2**31, 3),
     Fraction(1, 11862016), Fraction(-1, 12517376)]


def lit(x):
    """scheme text that produces value x in a chosen representation"""
    if isinstance(x, tuple) and x[0] == 'ratint':  # integer carried as a rational
        return '(/ %d 1)' % x[1]
    if isinstance(x, tuple) and x[0] == 'bigsmall':  # small integer carried as a bignum (results are never demoted)
        return '(- (+ %d 100000000000000000000) 100000000000000000000)' % x[1]
    if isinstance(x, Fraction) and x.denominator != 1:
        return '%d/%d' % (x.numerator, x.denominator)
    return str(int(x))


def val(x):
    return Fraction(x[1]) if isinstance(x, tuple) else Fraction(x)


def palette():
    vals = [Fraction(b) for b in B] + R + [('ratint', b) for b in B if -2**31 <= b < 2**31] + [('bigsmall', b) for b in (0, 1, -1, 7, 2**31)]
    return vals


def fmt(fr):
    return str(fr.numerator) if fr.denominator == 1 else '%d/%d' % (fr.numerator, fr.denominator)


def representable(fr):
    return fr.denominator == 1 or (abs(fr.numerator) < 2**31 and fr.denominator < 2**31)


def tdiv(a, b):
    q = abs(a) // abs(b)
    return q if (a >= 0) == (b > 0) else -q


BIN = {
    '+': lambda a, b: a + b, '-': lambda a, b: a - b, '*': lambda a, b: a * b,
    '/': lambda a, b: a / b if b != 0 else None,
    'quotient': lambda a, b: Fraction(tdiv(a.numerator, b.numerator)) if b != 0 and a.denominator == 1 and b.denominator == 1 else None,
    'remainder': lambda a, b: Fraction(a.numerator - b.numerator * tdiv(a.numerator, b.numerator)) if b != 0 and a.denominator == 1 and b.denominator == 1 else None,
    'modulo': lambda a, b: Fraction(a.numerator % b.numerator) if b != 0 and a.denominator == 1 and b.denominator == 1 else None,
    '<': lambda a, b: a < b, '>': lambda a, b: a > b, '<=': lambda a, b: a <= b, '>=': lambda a, b: a >= b, '=': lambda a, b: a == b,
}
UN = {
    'abs': abs, 'floor': lambda a: Fraction(a.numerator // a.denominator), 'ceiling': lambda a: Fraction(-((-a.numerator) // a.denominator)),
    'truncate': lambda a: Fraction(tdiv(a.numerator, a.denominator)), 'numerator': lambda a: Fraction(a.numerator), 'denominator': lambda a: Fraction(a.denominator),
    'zero?': lambda a: a == 0, 'positive?': lambda a: a > 0, 'negative?': lambda a: a < 0,
}
C09_OPS = {'<', '>', '<=', '>=', '=', 'zero?', 'positive?', 'negative?'}


def is_inexact_text(t):
    return bool(re.search(r'[.e]|inf|nan', t))


FN_OPS = {'add': ['+'], 'sub': ['-'], 'mul': ['*'], 'div': ['/'], 'quotient': ['quotient'], 'rem': ['remainder', 'modulo'],
          'modulo': ['modulo'], 'integer_as_fixnum': ['quotient', 'remainder', 'modulo'], 'abs': ['abs'], 'floor': ['floor'], 'ceil': ['ceiling'],
          'truncate': ['truncate'], 'pow': ['expt'], 'eq': ['=', 'zero?'], 'partial_cmp': ['<', '>', '<=', '>=', 'positive?', 'negative?'],
          'numerator': ['numerator'], 'denominator': ['denominator']}


def search(prop, violations):
    vals = palette()
    sessions, expect = [], []
    want = set()
    for v in violations:
        want.update(FN_OPS.get((v.get('fn') or '').split('::')[-1], []))
    if not want:
        want = set(BIN) | set(UN) | {'expt'}
    for op, f in BIN.items():
        if (op in C09_OPS) != (prop == 'C09') or op not in want:
            continue
        for a in vals:
            for b in vals:
                e = f(val(a), val(b))
                if e is None:
                    continue
                sessions.append('(%s %s %s)' % (op, lit(a), lit(b)))
                expect.append(e)
    for op, f in UN.items():
        if (op in C09_OPS) != (prop == 'C09') or op not in want:
            continue
        for a in vals:
            sessions.append('(%s %s)' % (op, lit(a)))
            expect.append(f(val(a)))
    if prop == 'C08' and 'expt' in want:
        for a in vals:
            for e in (0, 1, 2, 3, 31, 40, 64):
                sessions.append('(expt %s %d)' % (lit(a), e))
                expect.append(val(a) ** e)
    outs = replay.run_sessions(sessions, shared=True)
    soft = None
    for s, e, o in zip(sessions, expect, outs):
        if o.startswith('PANIC') or o.startswith('NORESULT'):
            return {'session': s, 'observed': o, 'demanded': 'a value or an error, never a panic', 'kind': 'panic'}
        if isinstance(e, bool):
            want = '#t' if e else '#f'
            if o != 'OK ' + want:
                return {'session': s, 'observed': o, 'demanded': want, 'kind': 'wrong comparison'}
            continue
        if not o.startswith('OK '):
            return {'session': s, 'observed': o, 'demanded': fmt(e), 'kind': 'error instead of a value'}
        got = o[3:]
        if is_inexact_text(got):
            if representable(e) and soft is None:
                soft = {'weak': True, 'session': s, 'observed': got, 'demanded': fmt(e), 'kind': 'inexact although the exact result is representable (may coincide with a listed known finding; the failed obligation above decides)'}
            continue
        if got != fmt(e):
            return {'session': s, 'observed': got, 'demanded': fmt(e), 'kind': 'exact result differs from the true value'}
    return soft
