#!/bin/bash
# tool/seednum.sh <outdir> <N> <prop> <seed-id>: store, confirm suite passes with the patch, run the check
o=$1; n=$2; prop=$3; id=$4
cd /verif
[ -n "$(git -C /repo status --porcelain)" ] && { echo "repo dirty"; exit 2; }
mkdir -p seeded/$id; cp $o/m$n.diff seeded/$id/patch.diff; cp $o/m$n.txt seeded/$id/demo
rm -rf /var/tmp/ev.bak; cp -r /verif/evidence /var/tmp/ev.bak
git -C /repo apply $(realpath seeded/$id/patch.diff) || { echo "apply failed"; exit 2; }
suite=$(cd /repo && CARGO_NET_OFFLINE=true cargo test --workspace --no-fail-fast --offline 2>&1 | grep -E "^test result" | awk '{p+=$4; f+=$6} END {print "passed=" p " failed=" f}')
out=$(./check $prop 2>&1); rc=$?
git -C /repo checkout -- .
rm -rf /verif/evidence; mv /var/tmp/ev.bak /verif/evidence
echo "$id suite[$suite] check $prop rc=$rc :: $(echo "$out" | grep -E "VIOLATION|UNDECIDED|^OK" | head -2 | cut -c1-300)"
