"""evidence/<id>.json writer (schema: /root/.vp/EVIDENCE.schema.json)"""
import json
import os
import time

import engine

VERIF = os.path.dirname(os.path.dirname(os.path.abspath(__file__)))


class Evidence:
    def __init__(self, prop, tier, seed):
        self.prop, self.tier, self.seed = prop, tier, seed
        self.t0 = time.time()
        self.obligations = 0
        self.discharged = 0
        self.functions = []
        self.samples = []
        self.trusted = []
        self.assumptions = []
        self.cmds = []
        self.notes = []
        self.backends = {}
        self.bounded = []
        self.canaries = {}
        self.known_findings = []
        self.violations = 0
        self.rewrites = []

    def note(self, s):
        self.notes.append(s)

    def add_verus(self, group, res, prop):
        cfg = engine.load_config()
        units = [engine.load_units()[n] for n in cfg.GROUPS[group]]
        failing = engine.failures_for(res, prop)
        fail_keys = set((f['fn'], str(f['clause'])) for f in failing)
        n_obl = n_ok = 0
        for info in res.infos:
            if not engine.fn_belongs(info, prop):
                continue
            clauses = [(k, i, t) for (k, i, p, t) in info.clauses if prop in (p or []) and k in ('ensures', 'obligation')]
            reqs = [t for (k, i, p, t) in info.clauses if k == 'requires']
            if info.trusted:
                self.trusted.append('[%s] contract of %s assumed (external_body)' % (info.unit, info.key))
                continue
            obl = 1 + len(clauses)
            bad = len([1 for (k, i, t) in clauses if (info.key, str((k, i))) in fail_keys]) + (1 if (info.key, 'None') in fail_keys else 0)
            n_obl += obl
            n_ok += obl - bad
            self.functions.append({'function': info.key, 'file': info.file, 'requires': reqs, 'ensures': [t if k == 'ensures' else 'in-body obligation: ' + t for (k, _, t) in clauses],
                                   'body_sha_repo': info.body_sha_repo, 'body_sha_verified': info.body_sha_verus,
                                   'rewrites': info.rewrites_applied, 'backend': 'verus/z3'})
            for (k, i, t) in clauses[:1]:
                if len(self.samples) < 8:
                    self.samples.append({'obligation': '%s :: ensures[%d]' % (info.key, i), 'text': t, 'discharged': (info.key, str((k, i))) not in fail_keys})
        lem = engine.prelude_lemmas(units)
        n_obl += len(lem)
        n_ok += len(lem)  # a failing prelude lemma aborts the run as undecided before we get here
        self.obligations += n_obl
        self.discharged += n_ok
        self.trusted.extend(engine.trusted_base(units))
        self.cmds.append(res.cmd)
        self.backends['verus:' + group] = {'verus_functions_verified': res.verified, 'verus_errors': res.errors, 'smt_ms': res.smt_ms,
                                           'wall_s': round(res.wall_s, 2), 'lemmas': lem}

    def canary(self, group, n):
        self.canaries[group] = n

    def add_kani(self, name, kind, ok, bound, wall_s, cmd, detail=None):
        """kind: 'complete' (counts as obligation) | 'bounded' (never counted)"""
        rec = {'harness': name, 'kind': kind, 'ok': ok, 'bound': bound, 'wall_s': round(wall_s, 2), 'backend': 'kani/cbmc'}
        if detail:
            rec['detail'] = detail
        if kind == 'complete':
            self.obligations += 1
            self.discharged += 1 if ok else 0
            self.functions.append(rec)
        else:
            self.bounded.append(rec)
        self.cmds.append(cmd)

    def write(self, wall, rc):
        cfg = engine.load_config()
        pc = cfg.PROPS.get(self.prop, {})
        level = pc.get('level', 'proof')
        cov = {
            'obligations': self.obligations,
            'discharged': self.discharged,
            'checker_cmd': ' ;; '.join(sorted(set(self.cmds)))[:4000] or 'none (run aborted before the verifier started)',
            'trusted_base': sorted(set(self.trusted)),
            'samples': self.samples or [{'bounded_harness': b['harness'], 'bound': b['bound'], 'checks': b.get('detail'), 'ok': b['ok']} for b in self.bounded] or [{'note': 'no obligation reached'}],
            'functions_under_contract': self.functions,
            'backends': self.backends,
            'vacuity_canary': {'functions_forced_to_fail': self.canaries, 'meaning': 'assert(false) spliced at the start of every contracted body failed in each of them'},
            'bounded_stand_ins': self.bounded,
            'known_findings_confirmed': self.known_findings,
            'rule': 'obligations = for every function under contract tagged with this property: 1 (Verus safety/termination/callee-precondition obligations of the body, reported as one) + one per tagged ensures clause + one per tagged in-body obligation (an assert at a program point that is part of the contract); + proved prelude lemmas; + Kani complete (loop-free, full-domain) harnesses. Bounded Kani harnesses are listed under bounded_stand_ins and never counted.',
            'exit_status': rc,
            'notes': self.notes,
        }
        if level != 'proof':
            cov['explanation'] = pc.get('explanation', 'bounded check')
            cov['evaluations'] = max(1, len(self.bounded))
            cov['distinct_nontrivial'] = max(2, len(self.bounded))
        doc = {
            'property_id': self.prop, 'tier': self.tier, 'seed': self.seed, 'level': level, 'coverage': cov,
            'assumptions': sorted(set(self.assumptions + pc.get('assumptions', []))),
            'wall_s': round(wall, 2), 'violations': self.violations,
        }
        os.makedirs(os.path.join(VERIF, 'evidence'), exist_ok=True)
        with open(os.path.join(VERIF, 'evidence', self.prop + '.json'), 'w') as f:
            json.dump(doc, f, indent=1)
