#!/bin/bash
# harmless.sh <diff> <props...>: apply, run checks, undo; prints rc per property
d=$1; shift
cd /verif
[ -n "$(git -C /repo status --porcelain)" ] && { echo "repo dirty"; exit 2; }
rm -rf /var/tmp/ev.bak; cp -r /verif/evidence /var/tmp/ev.bak   # evidence written while /repo is mutated must not survive
git -C /repo apply $d || { echo "apply failed $d"; exit 2; }
for p in "$@"; do
  out=$(./check $p 2>&1); rc=$?
  echo "$(basename $(dirname $d))/$(basename $d) $p rc=$rc :: $(echo "$out" | grep -E "VIOLATION|UNDECIDED|^OK" | head -1 | cut -c1-260)"
done
git -C /repo checkout -- .
rm -rf /verif/evidence; mv /var/tmp/ev.bak /verif/evidence
