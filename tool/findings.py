"""known findings (committed file, never written at run time), replay files, failing-input search"""
import json
import os
import re
import time

import engine

VERIF = os.path.dirname(os.path.dirname(os.path.abspath(__file__)))
KF_FILE = os.path.join(VERIF, 'known_findings.txt')
LAST_REPLAY_HAS_INPUT = False


def load(prop):
    """lines:  finding: property=C08 id=<slug> session=<scheme forms> expect=<what the property demands> :: text
               fixed: property=<id> <commit> <what failed>"""
    out = []
    if not os.path.exists(KF_FILE):
        return out
    for line in open(KF_FILE):
        line = line.rstrip('\n')
        if not line.startswith('finding:'):
            continue
        m = re.match(r'finding:\s+property=(\S+)\s+id=(\S+)\s+session=(.*?)\s+expect=(.*?)\s+::\s+(.*)$', line)
        if not m:
            continue
        if m.group(1) == prop:
            out.append({'property': m.group(1), 'id': m.group(2), 'session': m.group(3), 'expect': m.group(4), 'text': m.group(5)})
    return out


def confirm(prop, kf, ev):
    """re-run each listed finding's witness against the real code; KNOWN-FINDING only while it still fails"""
    lines = []
    if not kf:
        return lines
    import replay
    outs = replay.run_sessions([k['session'] for k in kf])
    for k, o in zip(kf, outs):
        still = (o != 'OK ' + k['expect'])
        rec = {'id': k['id'], 'session': k['session'], 'demanded': k['expect'], 'observed': o, 'still_fails': still}
        ev.known_findings.append(rec)
        if still:
            lines.append('KNOWN-FINDING: property=%s %s: %s  [%s => %s, property demands %s]' % (prop, k['id'], k['text'], k['session'], o, k['expect']))
        else:
            lines.append('NOTE: listed finding %s no longer reproduces (%s => %s)' % (k['id'], k['session'], o))
    return lines


def try_search(prop, violations, cfg):
    searcher = cfg.PROPS[prop].get('search')
    if not searcher:
        return None
    try:
        import importlib
        return importlib.import_module(searcher).search(prop, violations)
    except Exception:
        return None


def write_replay(prop, violations, cfg, ev):
    global LAST_REPLAY_HAS_INPUT
    d = os.path.join(VERIF, 'build', 'replays')
    os.makedirs(d, exist_ok=True)
    path = os.path.join(d, '%s-%d.json' % (prop, int(time.time())))
    doc = {'property': prop, 'failed_obligations': [], 'failing_input': None}
    for v in violations:
        doc['failed_obligations'].append({
            'function': v.get('fn'), 'file': v.get('file'), 'obligation': v.get('clause_text') or v.get('message'),
            'verifier_message': v.get('message'), 'verifier_output': v.get('rendered', '')[:4000], 'backend': v.get('backend', 'verus/z3'),
        })
    found = None
    for v in violations:
        if v.get('input'):
            found = v['input']
            break
    if found is None:
        try:
            searcher = cfg.PROPS[prop].get('search')
            if searcher:
                import importlib
                mod = importlib.import_module(searcher)
                found = mod.search(prop, violations)
        except Exception as e:  # the search never decides anything
            doc['search_error'] = repr(e)
    doc['failing_input'] = found
    LAST_REPLAY_HAS_INPUT = found is not None
    if found is None:
        doc['note'] = 'no-failing-input-found: the verifier rejected the obligation(s) above on the current tree; no concrete input was found by the replay search'
    with open(path, 'w') as f:
        json.dump(doc, f, indent=1)
    return path
