#!/usr/bin/env python3
"""proof-stability sweep: every group under N solver seeds (developer tool; not part of the checks)"""
import sys, os
sys.path.insert(0, os.path.dirname(os.path.abspath(__file__)))
import engine
cfg = engine.load_config()
n = int(sys.argv[1]) if len(sys.argv) > 1 else 8
bad = 0
for g in cfg.GROUPS:
    for seed in range(1, n + 1):
        r = engine.run_verus(cfg.GROUPS[g], seed=seed * 7919 + 1)
        ok = not r.fatal and not r.fn_errors and not r.other_errors
        if not ok:
            bad += 1
            print('UNSTABLE', g, seed * 7919 + 1, r.fatal[:200] if r.fatal else '', list(r.fn_errors), [e['message'] for e in r.other_errors][:2], flush=True)
    print('group', g, 'done', flush=True)
print('unstable runs:', bad)
