#!/bin/bash
# manual re-run of Verus on the last kept annotated sources (/var/tmp/mw-last) for proof debugging
S=/var/tmp/mw-manual; mkdir -p $S; rsync -a --delete --exclude target --exclude .git /repo/ $S/
if [ "$1" != "--noreset" ]; then rsync -a --delete /var/tmp/mw-last/ $S/marwood/src/; else shift; rsync -a /var/tmp/mw-edit/ $S/marwood/src/; fi
cd $S/marwood; D=/verif/build/verus-deps/debug/deps
verus src/lib.rs --crate-name marwood --crate-type lib --edition 2024 -L dependency=$D --extern log=$(ls $D/liblog-*.rlib) --extern num=$(ls $D/libnum-*.rlib) --extern rand=$(ls $D/librand-*.rlib) --extern thiserror=$(ls $D/libthiserror-*.rlib) --extern lazy_static=$(ls $D/liblazy_static-*.rlib) -A warnings --no-report-long-running "$@" 2>&1 | grep -v "^\[rust_verify\|^$"
