"""Minimal Rust source scanner: code mask, brace matching, item / fn / loop location.

Not a parser.  It only needs to be right on the repository's own style (rustfmt'ed code); whenever
something cannot be located unambiguously the caller raises AnchorLost, which the runner reports as
"undecided" (exit 2) and never as a violation.
"""
import re


class AnchorLost(Exception):
    pass


def code_mask(src):
    """mask[i] is True when src[i] is code (not inside a comment, string or char literal)."""
    n = len(src)
    mask = [True] * n
    i = 0
    while i < n:
        c = src[i]
        if c == '/' and i + 1 < n and src[i + 1] == '/':
            j = src.find('\n', i)
            if j < 0:
                j = n
            for k in range(i, j):
                mask[k] = False
            i = j
        elif c == '/' and i + 1 < n and src[i + 1] == '*':
            depth = 1
            j = i + 2
            while j < n and depth > 0:
                if src.startswith('/*', j):
                    depth += 1
                    j += 2
                elif src.startswith('*/', j):
                    depth -= 1
                    j += 2
                else:
                    j += 1
            for k in range(i, j):
                mask[k] = False
            i = j
        elif c == '"' or (c in 'rb' and re.match(r'(br|rb|r|b)(#*)"', src[i:i + 12]) and
                          (i == 0 or not (src[i - 1].isalnum() or src[i - 1] == '_'))):
            m = re.match(r'(br|rb|r|b)?(#*)"', src[i:i + 12])
            raw = m.group(1) in ('r', 'br', 'rb')
            hashes = m.group(2)
            j = i + m.end()
            if raw:
                end = '"' + hashes
                e = src.find(end, j)
                if e < 0:
                    e = n
                j = e + len(end)
            else:
                while j < n and src[j] != '"':
                    if src[j] == '\\':
                        j += 1
                    j += 1
                j += 1
            for k in range(i, min(j, n)):
                mask[k] = False
            i = j
        elif c == "'":
            # char literal or lifetime
            m = re.match(r"'(\\x[0-9a-fA-F]{2}|\\u\{[0-9a-fA-F_]+\}|\\.|[^\\'])'", src[i:i + 14])
            if m:
                for k in range(i, i + m.end()):
                    mask[k] = False
                i += m.end()
            else:
                i += 1
        else:
            i += 1
    return mask


class Src:
    def __init__(self, text):
        self.text = text
        self.mask = code_mask(text)

    def match_close(self, open_pos):
        """position of the bracket closing the one at open_pos"""
        t, m = self.text, self.mask
        o = t[open_pos]
        c = {'{': '}', '(': ')', '[': ']'}[o]
        depth = 0
        for i in range(open_pos, len(t)):
            if not m[i]:
                continue
            if t[i] == o:
                depth += 1
            elif t[i] == c:
                depth -= 1
                if depth == 0:
                    return i
        raise AnchorLost('unbalanced %s at %d' % (o, open_pos))

    def next_body_open(self, pos, limit=None):
        """first '{' at ()/[] depth 0 at or after pos"""
        t, m = self.text, self.mask
        depth = 0
        end = len(t) if limit is None else limit
        i = pos
        while i < end:
            if m[i]:
                ch = t[i]
                if ch in '([':
                    depth += 1
                elif ch in ')]':
                    depth -= 1
                elif ch == '{' and depth == 0:
                    return i
                elif ch == ';' and depth == 0:
                    return -1
            i += 1
        return -1

    def depth_at(self, pos, start=0):
        t, m = self.text, self.mask
        d = 0
        for i in range(start, pos):
            if m[i]:
                if t[i] == '{':
                    d += 1
                elif t[i] == '}':
                    d -= 1
        return d

    def find_code(self, regex, start=0, end=None):
        """iterate regex matches whose first char is code"""
        end = len(self.text) if end is None else end
        for mt in re.finditer(regex, self.text[:end]):
            if mt.start() < start:
                continue
            if self.mask[mt.start()]:
                yield mt

    def item_start(self, pos):
        """extend an item's start backwards over attributes and doc comments"""
        t = self.text
        ls = t.rfind('\n', 0, pos) + 1
        while ls > 0:
            pls = t.rfind('\n', 0, ls - 1) + 1
            line = t[pls:ls - 1].strip()
            if line.startswith('#[') or line.startswith('///') or line.startswith('#!['):
                ls = pls
            else:
                break
        return ls


def norm_ws(s):
    return re.sub(r'\s+', ' ', s).strip()


def find_items(src, header, depth=0, start=0, end=None):
    """all items whose header text (whitespace-normalised, up to the opening brace / semicolon)
    equals `header`, at brace depth `depth` relative to `start`.
    Returns list of (item_start, header_pos, open_brace, close_brace)."""
    end = len(src.text) if end is None else end
    first = re.escape(header.split()[0])
    out = []
    for mt in src.find_code(r'(?m)^[ \t]*((?:pub(?:\([^)]*\))?\s+)?(?:unsafe\s+)?' + first + r'\b)', start, end):
        hp = mt.start(1)
        if src.depth_at(hp, start) != depth:
            continue
        ob = src.next_body_open(hp, end)
        semi = -1
        if ob < 0:
            # struct Foo(...); style
            semi = src.text.find(';', hp)
            htxt = src.text[hp:semi]
        else:
            htxt = src.text[hp:ob]
        h = norm_ws(re.sub(r'^pub(\([^)]*\))?\s+', '', norm_ws(htxt)))
        # compare ignoring generics bounds / where clauses after the header text asked for
        if h == header or h.startswith(header + ' ') or h.startswith(header + '<') or h.startswith(header + '(') or h.startswith(header + ':'):
            if h != header:
                # allow "struct Foo {", "enum X", "impl<T> ..." must be spelled fully by caller
                rest = h[len(header):]
                if header.startswith('impl') and not rest.lstrip().startswith('where'):
                    continue
            if ob < 0:
                out.append((src.item_start(hp), hp, -1, semi))
            else:
                out.append((src.item_start(hp), hp, ob, src.match_close(ob)))
    return out


def find_fns(src, start, end, depth_rel):
    """functions declared between start and end at relative brace depth depth_rel.
    Returns dict name -> list of (item_start, fn_kw_pos, body_open, body_close)"""
    out = {}
    for mt in src.find_code(r'(?m)^[ \t]*((?:pub(?:\([^)]*\))?\s+)?(?:const\s+)?(?:unsafe\s+)?fn\s+([A-Za-z_0-9]+))', start, end):
        hp = mt.start(1)
        if src.depth_at(hp, start) != depth_rel:
            continue
        ob = src.next_body_open(hp, end)
        if ob < 0:
            continue
        out.setdefault(mt.group(2), []).append((src.item_start(hp), hp, ob, src.match_close(ob)))
    return out


LOOP_RE = r'\b(for|while|loop)\b'


def find_loops(src, body_open, body_close):
    """loop headers in a function body, in textual order: list of (kw_pos, open_brace)"""
    out = []
    for mt in src.find_code(LOOP_RE, body_open, body_close):
        kw = mt.group(1)
        p = mt.start()
        # `for<'a>` (HRTB) and `impl X for Y` cannot occur inside a body in this code base; guard anyway
        if kw == 'for' and src.text[mt.end():mt.end() + 1] == '<':
            continue
        # label / identifier characters before? (e.g. `.for_each`) handled by \b + '_' check
        if p > 0 and (src.text[p - 1] == '_' or src.text[p - 1] == '.'):
            continue
        ob = src.next_body_open(mt.end(), body_close)
        if ob < 0:
            raise AnchorLost('loop without body at %d' % p)
        out.append((p, ob))
    return out
