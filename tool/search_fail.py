"""Failing-input search for C07: repeated failing evaluations must not accumulate stack-trace depth."""
import re
import replay

DEFS = "(define (f x) (car x));;(define (g x) (+ 1 (f x)))"


def frames(o):
    m = re.search(r'trace-frames=Some\((\d+)\)', o)
    return int(m.group(1)) if m else None


def search(prop, violations):
    sess = [DEFS + ";;#trace (g 1)", DEFS + ";;(g 1);;(g 1);;(g 1);;(g 1);;#trace (g 1)", DEFS + ";;(g 1);;(g 1);;(+ 1 2)", DEFS + ";;(g 1);;(undefined-var);;(g 1);;#trace (car 5)", "#trace (car 5)"]
    outs = replay.run_sessions(sess)
    if frames(outs[0]) != frames(outs[1]):
        return {'session': sess[1], 'observed': outs[1], 'demanded': outs[0] + ' (the trace of the same failure in a fresh VM)', 'kind': 'stack trace depth grows with earlier failed evaluations'}
    # an evaluation that succeeds has no stack trace on record, whatever failed before it
    o_ok = replay.run_sessions([DEFS + ";;(g 1);;#trace (+ 1 2)"])[0]
    if frames(o_ok) is not None:
        return {'session': DEFS + ";;(g 1);;#trace (+ 1 2)", 'observed': o_ok, 'demanded': 'OK 3 [trace-frames=None] (a successful evaluation leaves no stack trace)', 'kind': 'the stack trace of an earlier failure is still on record after a successful evaluation'}
    if outs[2] != 'OK 3':
        return {'session': sess[2], 'observed': outs[2], 'demanded': 'OK 3', 'kind': 'an evaluation after failures differs'}
    if frames(outs[3]) != frames(outs[4]):
        return {'session': sess[3], 'observed': outs[3], 'demanded': outs[4], 'kind': 'stack trace depth grows with earlier failed evaluations'}
    # definitions and mutations the failed form did NOT complete are not performed; the ones it completed stay
    kw = "(define-syntax kw (syntax-rules () ((_ e) (quote e))))"
    sess2 = ["(define x 10);;(begin (set! x (+ x 1)) (car '()) (set! x 100));;x",
             "(kw a)",
             "(begin (car '()) %s);;(kw a)" % kw,          # run-time failure before the definition is reached
             "(begin %s (if));;(kw a)" % kw,               # the form does not compile: nothing of it ran
             "(define (h) (car '()) %s 1);;(h);;(kw a)" % kw]
    outs2 = replay.run_sessions(sess2)
    if outs2[0] != 'OK 11':
        return {'session': sess2[0], 'observed': outs2[0], 'demanded': 'OK 11', 'kind': 'effects of a failed form: completed ones stay, later ones are not performed'}
    for s, o in list(zip(sess2, outs2))[2:]:
        if o != outs2[1]:
            return {'session': s, 'observed': o, 'demanded': outs2[1] + ' (what a VM that never saw the definition answers)', 'kind': 'a definition the failed form never executed is visible afterwards'}
    # ... the same for plain definitions: a `define` the failed form never executed binds nothing, one it overrode stays as it was
    sess4 = ["undefined-name-d", "(if (car '()) (define undefined-name-d 4) 'no);;undefined-name-d", "(list (define undefined-name-d 1) (lambda));;undefined-name-d",
             "(define b 1);;(if (car '()) (define b 2) 'no);;b"]
    outs4 = replay.run_sessions(sess4)
    for s, o in list(zip(sess4, outs4))[1:3]:
        if o != outs4[0]:
            return {'session': s, 'observed': o, 'demanded': outs4[0] + ' (what a VM that never saw the definition answers)', 'kind': 'a definition the failed form never executed is visible afterwards'}
    if outs4[3] != 'OK 1':
        return {'session': sess4[3], 'observed': outs4[3], 'demanded': 'OK 1', 'kind': 'a definition the failed form never executed is visible afterwards'}
    # "repeated failures do not accumulate stack depth or memory": 1000 failures of each kind, then the same probe as a fresh VM
    def slots(o):
        m = re.search(r'stack-slots=Some\((\d+)\)', o)
        return int(m.group(1)) if m else None
    probe = "#trace (car 5)"
    sess3 = [probe] + [";;".join([bad] * 1000) + ";;" + probe for bad in ("(if)", "(car 5)", "undefined-variable", "((lambda (x) x))", "(vector-ref (vector) 0)")]
    outs3 = replay.run_sessions(sess3)
    for s, o in list(zip(sess3, outs3))[1:]:
        if slots(o) != slots(outs3[0]) or frames(o) != frames(outs3[0]):
            return {'session': s, 'observed': o, 'demanded': outs3[0] + ' (the same probe in a fresh VM)', 'kind': 'stack capacity / trace depth grows with repeated failures'}
    return None
