"""Failing-input search for C07: repeated failing evaluations must not accumulate stack-trace depth."""
import re
import replay

DEFS = "(define (f x) (car x));;(define (g x) (+ 1 (f x)))"


def frames(o):
    m = re.search(r'trace-frames=Some\((\d+)\)', o)
    return int(m.group(1)) if m else None


def search(prop, violations):
    sess = [DEFS + ";;#trace (g 1)", DEFS + ";;(g 1);;(g 1);;(g 1);;(g 1);;#trace (g 1)", DEFS + ";;(g 1);;(g 1);;(+ 1 2)", DEFS + ";;(g 1);;(undefined-var);;(g 1);;#trace (car 5)", "#trace (car 5)"]
    outs = replay.run_sessions(sess)
    if frames(outs[0]) != frames(outs[1]):
        return {'session': sess[1], 'observed': outs[1], 'demanded': outs[0] + ' (the trace of the same failure in a fresh VM)', 'kind': 'stack trace depth grows with earlier failed evaluations'}
    if outs[2] != 'OK 3':
        return {'session': sess[2], 'observed': outs[2], 'demanded': 'OK 3', 'kind': 'an evaluation after failures differs'}
    if frames(outs[3]) != frames(outs[4]):
        return {'session': sess[3], 'observed': outs[3], 'demanded': outs[4], 'kind': 'stack trace depth grows with earlier failed evaluations'}
    return None
