#!/bin/bash
# seedconfirm.sh <worktree> <mutation dir>: confirm (1) suite passes + demo fails with patch, (2) demo passes without
W=$1; M=$2
cd $W || exit 2
git checkout -q -- . ; rm -f marwood/tests/seed_demo.rs
export CARGO_TARGET_DIR=$W/target CARGO_NET_OFFLINE=true
git apply $M/patch.diff || { echo "PATCH DOES NOT APPLY"; exit 2; }
cp $M/demo.rs marwood/tests/seed_demo.rs
out=$(cargo test --workspace --offline --no-fail-fast 2>&1)
suite_fail=$(echo "$out" | grep -E "^test .* FAILED" | grep -v "seed_demo" | wc -l)
demo_fail=$(echo "$out" | grep -A3 "Running tests/seed_demo.rs" | grep -c "FAILED\|failed")
demo_fail2=$(echo "$out" | grep -E "test result: FAILED" | wc -l)
git checkout -q -- .
out2=$(cargo test --offline -p marwood --test seed_demo 2>&1)
demo_pass=$(echo "$out2" | grep -c "test result: ok")
rm -f marwood/tests/seed_demo.rs
echo "with-patch: other-test-failures=$suite_fail failing-binaries=$demo_fail2 ; without-patch: demo-ok=$demo_pass"
