"""Run Scheme sessions against the real (unannotated) crate built from /repo's working tree."""
import os
import subprocess
import sys

HERE = os.path.dirname(os.path.abspath(__file__))
sys.path.insert(0, HERE)
import engine


def run_sessions(sessions, profile='debug', shared=False):
    """sessions: list of str (forms separated by ';;').  returns list of outcome strings"""
    d = engine.make_scratch('replay')
    try:
        ex = os.path.join(d, 'marwood', 'examples')
        os.makedirs(ex, exist_ok=True)
        with open(os.path.join(HERE, 'replay', 'verif_replay.rs')) as f:
            open(os.path.join(ex, 'verif_replay.rs'), 'w').write(f.read())
        env = dict(os.environ, CARGO_NET_OFFLINE='true', CARGO_TARGET_DIR=os.path.join(engine.BUILD, 'replay-target'))
        env.pop('RUSTUP_TOOLCHAIN', None)
        cmd = ['cargo', 'build', '--offline', '-q', '-p', 'marwood', '--example', 'verif_replay']
        if profile == 'release':
            cmd.append('--release')
        p = subprocess.run(cmd, cwd=d, env=env, stdout=subprocess.PIPE, stderr=subprocess.STDOUT, text=True)
        if p.returncode != 0:
            raise engine.Undecided('replay driver build failed:\n' + p.stdout[-3000:])
        exe = os.path.join(engine.BUILD, 'replay-target', profile, 'examples', 'verif_replay')
        if shared:
            env['VERIF_REPLAY_SHARED'] = '1'
        p = subprocess.run([exe], env=env, input='\n'.join(s.replace('\n', ' ') for s in sessions) + '\n',
                           stdout=subprocess.PIPE, stderr=subprocess.PIPE, text=True, timeout=600)
        out = {}
        for line in p.stdout.splitlines():
            if line.startswith('RESULT '):
                _, idx, rest = line.split(' ', 2)
                out[int(idx)] = rest
        return [out.get(i, 'NORESULT (driver died: %s)' % p.stderr[-200:].strip()) for i in range(len(sessions))]
    finally:
        engine.rm_scratch(d)


if __name__ == '__main__':
    for s, r in zip(sys.argv[1:], run_sessions(sys.argv[1:])):
        print(s, '=>', r)
