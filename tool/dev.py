#!/usr/bin/env python3
"""developer loop: python3 tool/dev.py <unit> [<unit>...] [--canary] [--keep DIR] [--strict] [--fn SUBSTR]"""
import sys, os
sys.path.insert(0, os.path.dirname(os.path.abspath(__file__)))
import engine

args = sys.argv[1:]
canary = '--canary' in args
strict = '--strict' in args
keep = None
extra = []
if '--keep' in args:
    keep = args[args.index('--keep') + 1]
if '--fn' in args:
    extra += ['--verify-function', args[args.index('--fn') + 1]]
if '--mod' in args:
    extra += ['--verify-only-module', args[args.index('--mod') + 1]]
if '--expand' in args:
    extra += ['--expand-errors']
skip = set()
for i, a in enumerate(args):
    if a in ('--keep', '--fn', '--mod'):
        skip.add(i); skip.add(i + 1)
units = [a for i, a in enumerate(args) if not a.startswith('--') and i not in skip]
cfg = engine.load_config()
if len(units) == 1 and units[0] in cfg.GROUPS:
    units = cfg.GROUPS[units[0]]
try:
    r = engine.run_verus(units, canary=canary, strict=strict, keep=keep or '/var/tmp/mw-last', extra=extra)
except engine.AnchorLost as e:
    print('ANCHOR LOST:', e); sys.exit(2)
if r.fatal:
    print('FATAL', r.fatal[:6000]); sys.exit(2)
print('verified=%d errors=%d wall=%.1fs smt=%dms' % (r.verified, r.errors, r.wall_s, r.smt_ms))
for k, errs in r.fn_errors.items():
    for e in errs:
        print('--- FN', k, 'clause', e['clause'])
        print(e['rendered'][:1800])
for e in r.other_errors:
    print('--- OTHER'); print(e['rendered'][:1800])
slow = sorted(r.fn_times.items(), key=lambda kv: -kv[1][0])[:8]
print('slowest:', [(k, v[0]) for k, v in slow])
