#!/bin/bash
# seedtail.sh <diff> <txt> <seed-id>: store a C04 seed, confirm it on /repo (suite passes with the patch, the tail replay search
# shows stack growth with the patch and none without), run the C04 check against it, undo.
diff=$1; txt=$2; id=$3
cd /verif
[ -n "$(git -C /repo status --porcelain)" ] && { echo "repo dirty"; exit 2; }
mkdir -p seeded/$id; cp $diff seeded/$id/patch.diff; cp $txt seeded/$id/demo
rm -rf /var/tmp/ev.bak; cp -r /verif/evidence /var/tmp/ev.bak   # evidence written while /repo is mutated must not survive
git -C /repo apply $(realpath seeded/$id/patch.diff) || { echo "apply failed"; exit 2; }
suite=$(cd /repo && CARGO_NET_OFFLINE=true cargo test --workspace --no-fail-fast --offline 2>&1 | grep -E "^test result" | awk '{p+=$4; f+=$6} END {print "passed=" p " failed=" f}')
found=$(python3 tool/search_tail.py 2>/dev/null | tail -1)
out=$(./check C04 2>&1); rc=$?
git -C /repo checkout -- .
rm -rf /verif/evidence; mv /var/tmp/ev.bak /verif/evidence
echo "$id suite[$suite] search[$(echo $found | cut -c1-200)]"
echo "$id check rc=$rc :: $(echo "$out" | grep -E "VIOLATION|UNDECIDED|^OK" | head -2 | cut -c1-300)"
