#!/bin/bash
# seedrun.sh <seeded dir> [prop]: apply the seeded patch to /repo, run the property's check, undo
d=$1; p=${2:-$(python3 -c "import json;print(json.load(open('$d/meta.json'))['property'])")}
cd /verif
[ -n "$(git -C /repo status --porcelain)" ] && { echo "repo dirty"; exit 2; }
rm -rf /var/tmp/ev.bak; cp -r /verif/evidence /var/tmp/ev.bak   # evidence written while /repo is mutated must not survive
git -C /repo apply $(realpath $d/patch.diff) || { echo "apply failed"; exit 2; }
out=$(./check $p 2>&1); rc=$?
git -C /repo checkout -- .
rm -rf /verif/evidence; mv /var/tmp/ev.bak /verif/evidence
echo "$d $p rc=$rc :: $(echo "$out" | grep -E "VIOLATION|UNDECIDED|^OK" | head -2 | cut -c1-400)"
