"""Verus engine: scratch copy of /repo -> annotate -> verify whole crate -> classify results."""
import glob
import importlib.util
import json
import os
import re
import shutil
import subprocess
import sys
import tempfile
import time

HERE = os.path.dirname(os.path.abspath(__file__))
VERIF = os.path.dirname(HERE)
sys.path.insert(0, HERE)
import annotate  # noqa: E402
from rustscan import AnchorLost  # noqa: E402

REPO = os.environ.get('VERIF_REPO', '/repo')
BUILD = os.path.join(VERIF, 'build')
VERUS_TOOLCHAIN = '1.98.1-x86_64-unknown-linux-gnu'
DEPS_DIR = os.path.join(BUILD, 'verus-deps')
EXTERN_CRATES = ['log', 'num', 'rand', 'thiserror', 'lazy_static']


class Undecided(Exception):
    """tool-level problem: never a violation, never a pass (exit 2)"""


def scratch_root():
    base = os.environ.get('VERIF_SCRATCH') or os.environ.get('TMPDIR') or '/var/tmp'
    os.makedirs(base, exist_ok=True)
    return base


def make_scratch(tag='verus'):
    d = tempfile.mkdtemp(prefix='marwood-verif.%s.' % tag, dir=scratch_root())
    subprocess.run(['rsync', '-a', '--exclude', 'target', '--exclude', '.git', REPO + '/', d + '/'], check=True)
    return d


def rm_scratch(d):
    shutil.rmtree(d, ignore_errors=True)


def lock_hash():
    import hashlib
    h = hashlib.sha256()
    for f in ('Cargo.lock', 'marwood/Cargo.toml'):
        with open(os.path.join(REPO, f), 'rb') as fh:
            h.update(fh.read())
    return h.hexdigest()[:16]


def ensure_deps(log=None):
    """rlibs of the crate's dependencies built with Verus' pinned toolchain (cache keyed by Cargo.lock)"""
    stamp = os.path.join(DEPS_DIR, 'stamp-' + lock_hash())
    if os.path.exists(stamp) and all(glob.glob(os.path.join(DEPS_DIR, 'debug/deps/lib%s-*.rlib' % c)) for c in EXTERN_CRATES):
        return
    d = make_scratch('deps')
    try:
        env = dict(os.environ, RUSTUP_TOOLCHAIN=VERUS_TOOLCHAIN, CARGO_NET_OFFLINE='true', CARGO_TARGET_DIR=DEPS_DIR)
        p = subprocess.run(['cargo', 'build', '--offline', '-p', 'marwood', '--lib'], cwd=d, env=env,
                           stdout=subprocess.PIPE, stderr=subprocess.STDOUT, text=True)
        if p.returncode != 0:
            raise Undecided('dependency build for the Verus toolchain failed:\n' + p.stdout[-3000:])
        open(stamp, 'w').write('ok\n')
    finally:
        rm_scratch(d)


def load_units():
    units = {}
    for f in sorted(glob.glob(os.path.join(VERIF, 'specs', '*.py'))):
        name = os.path.basename(f)[:-3]
        if name.startswith('_') or name.endswith('_mark'):
            continue
        spec = importlib.util.spec_from_file_location('verif_spec_' + name, f)
        mod = importlib.util.module_from_spec(spec)
        spec.loader.exec_module(mod)
        for u in getattr(mod, 'UNITS', []):
            units[u['name']] = u
    return units


def load_config():
    spec = importlib.util.spec_from_file_location('verif_config', os.path.join(VERIF, 'specs', '_config.py'))
    mod = importlib.util.module_from_spec(spec)
    spec.loader.exec_module(mod)
    return mod


class RunResult:
    def __init__(self):
        self.infos = []          # FnInfo of every contracted fn
        self.json = None
        self.diags = []          # error diagnostics
        self.fn_errors = {}      # fn key -> list of (message, line, clause or None)
        self.other_errors = []   # errors outside contracted fns
        self.fatal = None        # text when verus did not get to verification
        self.wall_s = 0.0
        self.cmd = ''
        self.smt_ms = 0
        self.verified = 0
        self.errors = 0
        self.fn_times = {}


def strict_rewrite(prelude):
    """thorough tier: every known-finding carve-out /*KF:name*/ expr /*ENDKF*/ becomes `false`"""
    return re.sub(r'/\*KF:(\w+)\*/.*?/\*ENDKF\*/', r'/*KF:\1*/ false /*ENDKF*/', prelude, flags=re.S)


def run_verus(unit_names, canary=False, seed=None, strict=False, keep=None, extra=None, rlimit=None, mutate=None):
    """one Verus run over a fresh scratch copy with the given units applied"""
    cfg = load_config()
    units = load_units()
    res = RunResult()
    t0 = time.time()
    ensure_deps()
    d = make_scratch('verus')
    try:
        crate = os.path.join(d, 'marwood')
        if mutate:
            mutate(d)
        active = [units[n] for n in unit_names]
        wrapped_types = set()
        for u in active:
            wrapped_types.update(u.get('wraps_types', []))
        need_ext = []

        def need(t):
            if t in wrapped_types or t in need_ext:
                return
            need_ext.append(t)
            for d in cfg.TYPE_EXT[t].get('needs', []):
                need(d)
        for u in active:
            for t in u.get('uses_types', []):
                need(t)
        # a transparent declaration of a type replaces its opaque one (e.g. CellT replaces Cell)
        for t in list(need_ext):
            for rp in cfg.TYPE_EXT[t].get('replaces', []):
                if rp in need_ext:
                    need_ext.remove(rp)
        by_file = {}
        for u in active:
            by_file.setdefault(u['file'], []).append(u)
        for f, us in by_file.items():
            if len(us) > 1:
                merged = {'name': '+'.join(u['name'] for u in us), 'file': f, 'prelude': '\n'.join(u.get('prelude', '') for u in us),
                          'wrap': sum((u.get('wrap', []) for u in us), []), 'fns': {}}
                for u in us:
                    merged['fns'].update(u.get('fns', {}))
                u = merged
            else:
                u = dict(us[0])
            if strict:
                u['prelude'] = strict_rewrite(u.get('prelude', ''))
                u['fns'] = json_strict(u['fns'])
            dbg = os.environ.get('VERIF_DEBUG_PRELUDE')
            if dbg and os.path.exists(dbg + '.' + us[0]['name']):
                u['prelude'] = u.get('prelude', '') + open(dbg + '.' + us[0]['name']).read()
            p = os.path.join(crate, f)
            text = open(p).read()
            new, infos = annotate.annotate_file(text, u, canary=canary)
            open(p, 'w').write(new)
            for i in infos:
                i.file = f
            res.infos.extend(infos)
        libp = os.path.join(crate, 'src/lib.rs')
        lib = annotate.annotate_lib_rs(open(libp).read())
        if need_ext:
            lib += '\nverus! {\n' + '\n'.join(cfg.TYPE_EXT[t]['decl'] for t in need_ext) + '\n}\n'
        open(libp, 'w').write(lib)

        deps = os.path.join(DEPS_DIR, 'debug/deps')
        cmd = ['verus', 'src/lib.rs', '--crate-name', 'marwood', '--crate-type', 'lib', '--edition', '2024',
               '-L', 'dependency=' + deps]
        for c in EXTERN_CRATES:
            libs = sorted(glob.glob(os.path.join(deps, 'lib%s-*.rlib' % c)))
            if not libs:
                raise Undecided('missing rlib for ' + c)
            cmd += ['--extern', '%s=%s' % (c, libs[-1])]
        cmd += ['-A', 'warnings', '--output-json', '--time-expanded', '--error-format=json', '--no-report-long-running',
                '--num-threads', str(int(os.environ.get('VERIF_THREADS', '8')))]
        if any(u.get('no_trait_conflicts') for u in active):
            cmd.append('--no-trait-conflicts')
        if seed is not None:
            cmd += ['--smt-option', 'smt.random_seed=%d' % (seed % 100000)]
        if rlimit:
            cmd += ['--rlimit', str(rlimit)]
        if extra:
            cmd += extra
        res.cmd = ' '.join(cmd)
        env = dict(os.environ)
        env.pop('RUSTUP_TOOLCHAIN', None)
        p = subprocess.run(cmd, cwd=crate, env=env, stdout=subprocess.PIPE, stderr=subprocess.PIPE, text=True,
                           timeout=int(os.environ.get('VERIF_VERUS_TIMEOUT', '1500')))
        res.stdout, res.stderr = p.stdout, p.stderr
        try:
            res.json = json.loads(p.stdout) if p.stdout.strip() else None
        except ValueError:
            res.json = None
        for line in p.stderr.splitlines():
            line = line.strip()
            if not line.startswith('{'):
                continue
            try:
                dg = json.loads(line)
            except ValueError:
                continue
            if dg.get('level') == 'error' and dg.get('spans'):
                res.diags.append(dg)
            elif dg.get('level') == 'error' and 'aborting' not in dg.get('message', ''):
                res.diags.append(dg)
        # anything that is not one of the verifier's own "obligation not discharged" diagnostics is a compile / parse / tool error
        # (e.g. a hint that landed where no statement may stand): the run did not decide anything
        compile_errors = [dg for dg in res.diags if dg.get('code') or not VERIF_MSG_RE.search(dg.get('message', ''))]
        vr = (res.json or {}).get('verification-results')
        if compile_errors:
            res.json = None
            vr = None
        crashed = 'panicked at' in p.stderr or (vr is not None and vr.get('encountered-error') and not res.diags)
        if res.json is None or vr is None or vr.get('encountered-vir-error') or crashed:
            res.fatal = 'verus did not reach verification:\n' + '\n'.join(
                (dg.get('rendered') or dg.get('message', '')) for dg in res.diags[:6]) + (p.stderr[-1500:] if not res.diags else '')
        else:
            res.verified, res.errors = vr.get('verified', 0), vr.get('errors', 0)
            try:
                smt = res.json['times-ms']['smt']
                res.smt_ms = smt.get('total', 0)
                for mod in smt.get('smt-run-module-times', []):
                    for fb in mod.get('function-breakdown', []):
                        res.fn_times[fb['function']] = (fb.get('time', 0), fb.get('success'))
            except (KeyError, TypeError):
                pass
            classify(res)
        if keep:
            shutil.rmtree(keep, ignore_errors=True)
            shutil.copytree(crate + '/src', keep)
    finally:
        rm_scratch(d)
    res.wall_s = time.time() - t0
    return res


def json_strict(fns):
    out = {}
    for k, v in fns.items():
        v = dict(v)
        for kind in ('requires', 'ensures'):
            if kind in v:
                cl = annotate.clause_list(v[kind])
                v[kind] = [((p if p is not None else v.get('props', [])), strict_rewrite(t)) for p, t in cl]
        out[k] = v
    return out


VERIF_MSG_RE = re.compile(r'not satisfied|assertion failed|possible arithmetic|possible division|possible bit shift|out of range|'
                          r'[Rr]esource limit|rlimit|timed out|termination|unreachable|might not|may not|could not prove|cannot prove|overflow|underflow')
UNDECIDED_MARKERS = ('resource limit', 'rlimit', 'timed out', 'out of memory', 'internal error', 'not supported', 'unsupported')


def classify(res):
    for dg in res.diags:
        msg = dg.get('message', '')
        prim = [s for s in dg.get('spans', []) if s.get('is_primary')] or dg.get('spans', [])
        owner = None
        clause = None
        line = None
        fname = None
        for sp in dg.get('spans', []):
            for info in res.infos:
                if sp['file_name'].endswith(info.file) and info.line_lo <= sp['line_start'] <= info.line_hi:
                    owner = owner or info
                    if info is owner and sp['line_start'] in info.clause_lines and clause is None:
                        clause = info.clause_lines[sp['line_start']]
        if prim:
            line = prim[0]['line_start']
            fname = prim[0]['file_name']
        if owner is not None:
            res.fn_errors.setdefault(owner.key, []).append({'message': msg, 'file': fname, 'line': line, 'clause': clause,
                                                             'rendered': dg.get('rendered', '')})
        else:
            res.other_errors.append({'message': msg, 'file': fname, 'line': line, 'rendered': dg.get('rendered', '')})


def props_of_error(info, err):
    """property ids an error belongs to"""
    if err['clause'] is not None:
        kind, idx = err['clause']
        for (k, i, props, text) in info.clauses:
            if k == kind and i == idx:
                return props
    return info.props


def failures_for(res, prop):
    """verification failures that belong to property `prop`"""
    out = []
    for info in res.infos:
        for err in res.fn_errors.get(info.key, []):
            props = props_of_error(info, err)
            if prop in props:
                out.append({'fn': info.key, 'unit': info.unit, 'file': info.file, 'clause': err['clause'], 'message': err['message'],
                            'line': err['line'], 'rendered': err['rendered'], 'props': props,
                            'clause_text': clause_text(info, err['clause'])})
    return out


def clause_text(info, clause):
    if clause is None:
        return None
    for (k, i, props, text) in info.clauses:
        if (k, i) == tuple(clause):
            return '%s %s' % (k, text)
    return None


def fn_belongs(info, prop):
    if prop in info.props:
        return True
    return any(prop in (p or []) for (_, _, p, _) in info.clauses)


TRUST_PATTERNS = [
    (r'assume_specification\s*(?:<[^\[]*>)?\s*\[\s*([^\]]+?)\s*\]', 'assume_specification %s'),
    (r'#\[verifier::external_body\]\s*(?:#\[[^\]]*\]\s*)*pub\s+(?:broadcast\s+)?proof\s+fn\s+(\w+)', 'axiom (external_body proof fn) %s'),
    (r'#\[verifier::external_body\]\s*(?:#\[[^\]]*\]\s*)*pub\s+fn\s+(\w+)', 'external_body fn %s'),
    (r'#\[verifier::external_type_specification\][^;{]*?struct\s+(\w+)', 'external_type_specification %s'),
    (r'#\[verifier::external_trait_specification\]\s*pub\s+trait\s+(\w+)', 'external_trait_specification %s'),
    (r'\buninterp\s+spec\s+fn\s+(\w+)', 'uninterpreted spec fn %s'),
    (r'\b(assume|admit)\s*\(', 'PROOF HOLE %s('),
]


def trusted_base(units):
    out = []
    for u in units:
        text = u.get('prelude', '')
        code = re.sub(r'//[^\n]*', '', text)   # the hole scan reads code, not comments ("groups assume (specs/...)" is prose)
        for rx, fmt in TRUST_PATTERNS:
            for m in re.finditer(rx, code if 'PROOF HOLE' in fmt else text):
                out.append('[%s] ' % u['name'] + fmt % ' '.join(m.group(1).split()))
        for k, v in u.get('fns', {}).items():
            if v.get('trusted'):
                out.append('[%s] contract assumed, body not verified (external_body): %s' % (u['name'], k))
            for txt in [v.get('body_start', '')] + [i.get('text', '') for i in v.get('inserts', [])] + list(v.get('loops', {}).values()):
                if re.search(r'\b(assume|admit)\s*\(', txt or ''):
                    out.append('[%s] PROOF HOLE in ghost text of %s' % (u['name'], k))
    return out


def prelude_lemmas(units):
    """proof fns of the preludes that carry a verified body (counted as obligations)"""
    out = []
    for u in units:
        text = u.get('prelude', '')
        for m in re.finditer(r'((?:#\[[^\]]*\]\s*)*)(?:pub\s+)?(?:broadcast\s+)?proof\s+fn\s+(\w+)', text):
            if 'external_body' not in m.group(1):
                out.append('%s::%s' % (u['name'], m.group(2)))
    return out
