#!/bin/bash
# regenerate every evidence file from a clean /repo working tree (run before committing evidence)
cd /verif
if [ -n "$(git -C /repo status --porcelain)" ]; then echo "/repo working tree is dirty"; exit 1; fi
ids=$(python3 -c "import json; print(' '.join(c['property_id'] for c in json.load(open('MANIFEST.json'))['checks']))")
rc=0
for id in $ids; do
  out=$(./check $id 2>&1); r=$?
  echo "$id rc=$r $(echo "$out" | tail -1)"
  [ $r -ne 0 ] && rc=1
done
python3-vt - <<'PY'
import json, jsonschema, glob
sch=json.load(open('/root/.vp/EVIDENCE.schema.json'))
for f in sorted(glob.glob('/verif/evidence/*.json')):
    e=json.load(open(f)); jsonschema.validate(e, sch)
    c=e['coverage']; print(f, e['level'], c.get('obligations'), c.get('discharged'))
m=json.load(open('/verif/MANIFEST.json')); jsonschema.validate(m, json.load(open('/root/.vp/MANIFEST.schema.json'))); print('manifest ok')
PY
exit $rc
