#!/bin/bash
# Offline setup: dependency rlibs for Verus' pinned toolchain, replay driver build cache. No network needed.
set -e
cd "$(dirname "$0")"
export CARGO_NET_OFFLINE=true
mkdir -p build
python3 - <<'PY'
import sys, os
sys.path.insert(0, os.path.join(os.getcwd(), 'tool'))
import engine
engine.ensure_deps()
print('verus deps ok')
import replay
print('replay driver:', replay.run_sessions(['(+ 1 2)']))
PY
